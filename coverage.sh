#!/bin/bash
# coverage.sh [ID...] : which lines of /repo/src do the quick checks execute?  Builds the harness with
# -C instrument-coverage (nightly, llvm-tools), runs the quick tier of every property (fuzz and Miri stages
# off; they do not run this binary) with a scratch VERIF_DIR so that evidence/ is not touched, merges the
# profiles and prints llvm-cov's per-file summary plus the uncovered lines.  Slow (~1 h: counters are contended
# by the 16 worker threads); a diagnostic, not a registered check.
set -u
HERE="$(cd "$(dirname "$0")" && pwd)"
T="$(dirname "$(rustup which --toolchain nightly rustc)")/../lib/rustlib/x86_64-unknown-linux-gnu/bin"
S="$(mktemp -d /tmp/mlv-cov-XXXXXX)"; trap 'rm -rf "$S"' EXIT
mkdir -p "$S/prof" "$HERE/build/cov"
cp -r "$HERE/corpus" "$HERE/known_findings.txt" "$S/"; ln -s "$HERE/harness" "$S/harness"; ln -s "$HERE/fuzz" "$S/fuzz"
(cd "$HERE/harness" && CARGO_NET_OFFLINE=true CARGO_TARGET_DIR="$HERE/build/cov" RUSTFLAGS="-C instrument-coverage" cargo +nightly build --release -p mlv --bin mlv 2>&1 | tail -1)
BIN="$HERE/build/cov/release/mlv"
IDS="${*:-C01 C02 C03 C04 C05 C06 C07 C08 C09 C10 C11 C12 C13 C14 C15 C16 C18}"
for id in $IDS; do
  VERIF_DIR="$S" MLV_BUILD_DIR="$S/build" MLV_DBGCHK_BIN="$BIN" MLV_SKIP_FUZZ=1 MLV_SKIP_L32=1 VERIF_MIRI_CASES=1 \
    LLVM_PROFILE_FILE="$S/prof/$id-%p.profraw" timeout 1800 "$BIN" "$id" quick 2>&1 | grep -E "^(OK|FAIL|INCONCL)" | tail -1 | cut -c1-120
done
"$T/llvm-profdata" merge -sparse "$S"/prof/*.profraw -o "$S/all.profdata"
"$T/llvm-cov" report "$BIN" -instr-profile="$S/all.profdata" --sources /repo/src 2>/dev/null | cut -c1-150
for f in /repo/src/*.rs; do
  "$T/llvm-cov" show "$BIN" -instr-profile="$S/all.profdata" --sources "$f" --show-instantiations=false 2>/dev/null | grep -E "^ +[0-9]+\| +0\|" | sed "s|^|$(basename $f): |"
done
