//! C08 engine 1: arbitrary bytes -> parse_float in every configuration, under
//! AddressSanitizer with debug assertions (core's UB-precondition checks).
//! Outcome classes: value / clean unwinding panic (both fine); an ASan report,
//! an abort or a signal is the crash libFuzzer records.
#![no_main]
use libfuzzer_sys::fuzz_target;
use mlv::cfgs::CFGS;
use mlv::oracle::Fmt;
use mlv::runner::catch;

fuzz_target!(|data: &[u8]| {
    mlv::fuzzglue::init();
    if data.len() < 6 {
        return;
    }
    let sel = data[0];
    let exp = match data[1] & 7 {
        0 => i32::MIN,
        1 => i32::MAX,
        2 => (data[2] as i32) - 128,
        3 => -(i32::from_le_bytes([data[2], data[3], data[4], data[5]]).unsigned_abs() as i64 % 5000) as i32,
        4 => (i32::from_le_bytes([data[2], data[3], data[4], data[5]]).unsigned_abs() % 5000) as i32,
        _ => i32::from_le_bytes([data[2], data[3], data[4], data[5]]),
    };
    let body = &data[6..];
    // optional transformation: map bytes into digits-with-rare-wild-bytes so long valid-ish strings are likely
    let mapped: Vec<u8>;
    let body: &[u8] = if sel & 0x30 == 0x10 {
        mapped = body.iter().map(|&b| if b >= 250 { b } else { b'0' + b % 10 }).collect();
        &mapped
    } else if sel & 0x30 == 0x20 {
        mapped = body.iter().flat_map(|&b| std::iter::repeat(if b & 1 == 0 { 0xFF } else { b'9' }).take(1 + (b >> 5) as usize)).collect();
        &mapped
    } else {
        body
    };
    let split = if body.is_empty() { 0 } else { (data[1] as usize >> 3) * body.len() / 31 };
    let split = split.min(body.len());
    let (int, frac) = body.split_at(split);
    let fmts: &[Fmt] = if sel & 1 == 0 { &[Fmt::F64, Fmt::F32] } else { &[Fmt::F32, Fmt::F64] };
    for cfg in CFGS.iter() {
        for &fmt in fmts {
            match catch(|| cfg.parse(fmt, int, frac, exp)) {
                Ok(bits) => {
                    std::hint::black_box(bits);
                }
                Err(_) => {} // documented: garbage may panic cleanly
            }
        }
    }
});
