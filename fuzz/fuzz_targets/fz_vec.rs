//! C12 / C13 under AddressSanitizer: bytes -> recipe -> one big-integer
//! operation against the Nat reference, and one vector history against the
//! Vec model ("writing outside its buffer" becomes an ASan report).
#![no_main]
use libfuzzer_sys::fuzz_target;
use mlv::runner::Stats;

fuzz_target!(|data: &[u8]| {
    mlv::fuzzglue::init();
    let r = mlv::fuzzglue::recipe_from_bytes(data);
    let mut st = Stats::default();
    if let Err(f) = mlv::props::c12::check_recipe(&r, &mut st) {
        mlv::fuzzglue::report(&f, &["C12", "C13"]);
    }
    let mut r2 = r.clone();
    r2.k[0] %= 64; // shorter histories: more executions per second
    if let Err(f) = mlv::props::c13::check_recipe(&r2, &mut st) {
        mlv::fuzzglue::report(&f, &["C12", "C13"]);
    }
});
