//! C01 / C02 / C05 second engine: bytes -> recipe -> boundary-constructed
//! input -> all configurations -> exact rounding oracle and cross-config
//! comparison inside the target.  Coverage feedback is over the crate's own
//! branches (Lemire's second multiplication, tie window, subnormal branch,
//! compute_error fallback, the parse_mantissa exits, Bellerophon's error test).
#![no_main]
use libfuzzer_sys::fuzz_target;
use mlv::gen;
use mlv::oracle::Fmt;
use mlv::props::common::{all_cfgs, check_rounding};

fuzz_target!(|data: &[u8]| {
    mlv::fuzzglue::init();
    let r = mlv::fuzzglue::recipe_from_bytes(data);
    let lim = gen::Limits { long: 1200, huge: 2400 };
    let cfgs = all_cfgs();
    for fmt in [Fmt::F64, Fmt::F32] {
        let c = gen::mixed_no_table(fmt, &r, lim);
        if let Err(f) = check_rounding(fmt, &c, &cfgs) {
            // check_rounding judges every configuration's result: a disagreement between
            // configurations necessarily shows up as a misrounding in at least one of them
            mlv::fuzzglue::report(&f, &["C01", "C02", "C05"]);
        }
    }
});
