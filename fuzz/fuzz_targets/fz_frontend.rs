//! C19 engine 2: raw bytes -> every shipped front-end copy, both formats,
//! with the reference scanner + rounding oracle inside the target.
#![no_main]
use libfuzzer_sys::fuzz_target;
use mlv::fronts::FRONTS;
use mlv::oracle::Fmt;
use mlv::props::c19::check_front;
use mlv::runner::Stats;

fuzz_target!(|data: &[u8]| {
    mlv::fuzzglue::init();
    if data.len() > 4096 {
        return;
    }
    let mut st = Stats::default();
    for front in FRONTS.iter() {
        for fmt in [Fmt::F64, Fmt::F32] {
            if let Err(f) = check_front(front, fmt, data, &mut st) {
                mlv::fuzzglue::report(&f, &["C19"]);
            }
        }
    }
});
