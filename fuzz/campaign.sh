#!/bin/bash
# Run one libFuzzer campaign:  campaign.sh <target> <quick|thorough> <ID> <report.json> [asan|asanrel]
# quick   : fixed work - 16 independent processes (seeds VERIF_SEED*16+i+1), each -runs=N on its
#           own fresh corpus directory seeded from fuzz/seeds/<target>/
# thorough: -fork=16 on one corpus under a wall-clock budget (hitting the budget is
#           "inconclusive for the remainder", never a violation)
# exit 0 = no crash; 1 = crash (prints VIOLATION property=<ID> replay=<artifact>); 2 = inconclusive
set -u
HERE="$(cd "$(dirname "$0")" && pwd)"
VERIF_DIR="$(dirname "$HERE")"
BUILD="${VERIF_BUILD:-$VERIF_DIR/build}"
TARGET="$1"; TIER="$2"; ID="$3"; REPORT="$4"
MODE="${5:-asan}"
SEED="${VERIF_SEED:-0}"
BIN="$BUILD/fuzz-$MODE/x86_64-unknown-linux-gnu/release/$TARGET"
"$HERE/build.sh" "$MODE" || exit 2
[ -x "$BIN" ] || { echo "INCONCLUSIVE: $BIN missing" >&2; exit 2; }
WORK="$BUILD/fuzz-work/$ID-$TARGET-$MODE"
rm -rf "$WORK"; mkdir -p "$WORK/artifacts"
case "$TARGET" in
  fz_bytes)    RUNS=60000;  MAXLEN=2048 ;;
  fz_frontend) RUNS=150000; MAXLEN=512 ;;
  fz_vec)      RUNS=20000;  MAXLEN=96 ;;
  fz_round)    RUNS=40000;  MAXLEN=96 ;;
  *)           RUNS=20000;  MAXLEN=512 ;;
esac
SCALE="${VERIF_SCALE:-1}"
RUNS=$(python3 -c "print(max(100,int($RUNS*$SCALE)))")
export VERIF_DIR
export ASAN_OPTIONS="detect_leaks=0:abort_on_error=1:symbolize=1:allocator_may_return_null=1"
start=$(date +%s.%N)
NPROC=16
status=0
if [ "$TIER" = "thorough" ]; then
  BUDGET="${VERIF_FUZZ_SECONDS:-600}"
  mkdir -p "$WORK/corpus"
  cp -r "$HERE/seeds/$TARGET/." "$WORK/corpus/" 2>/dev/null
  "$BIN" "$WORK/corpus" -fork=$NPROC -ignore_crashes=0 -max_total_time="$BUDGET" -seed=$((SEED+1)) -len_control=0 -max_len=$MAXLEN \
      -rss_limit_mb=4096 -timeout=300 -artifact_prefix="$WORK/artifacts/" -print_final_stats=1 >"$WORK/log.0" 2>&1
  status=$?
  NLOGS=1
else
  pids=()
  for i in $(seq 0 $((NPROC-1))); do
    mkdir -p "$WORK/corpus.$i"
    # even processes start from the committed seeds, odd ones from an empty corpus
    if [ $((i % 2)) -eq 0 ]; then cp -r "$HERE/seeds/$TARGET/." "$WORK/corpus.$i/" 2>/dev/null; fi
    "$BIN" "$WORK/corpus.$i" -runs=$RUNS -seed=$((SEED*16+i+1)) -len_control=0 -max_len=$MAXLEN \
        -rss_limit_mb=4096 -timeout=300 -artifact_prefix="$WORK/artifacts/" -print_final_stats=1 >"$WORK/log.$i" 2>&1 &
    pids+=($!)
  done
  for p in "${pids[@]}"; do wait "$p" || status=$?; done
  NLOGS=$NPROC
fi
end=$(date +%s.%N)
execs=$(cat "$WORK"/log.* | grep -a "stat::number_of_executed_units" | awk '{s+=$2} END {print s+0}')
if [ "$TIER" = "thorough" ] && [ "$execs" = "0" ]; then
  # fork mode reports "#N: cov: ..." lines; take the last total
  execs=$(grep -a -o "^#[0-9]*:" "$WORK/log.0" | tail -1 | tr -d '#:' ); execs=${execs:-0}
fi
newu=$(cat "$WORK"/log.* | grep -a "stat::new_units_added" | awk '{s+=$2} END {print s+0}')
cov=$(cat "$WORK"/log.* | grep -a -o "cov: [0-9]*" | awk '{if ($2>m) m=$2} END {print m+0}')
corp=$(cat "$WORK"/log.* | grep -a -o "corp: [0-9]*" | awk '{if ($2>m) m=$2} END {print m+0}')
crash=$(ls "$WORK/artifacts" 2>/dev/null | grep -E "^(crash|leak)-" | head -1)
other=$(ls "$WORK/artifacts" 2>/dev/null | grep -E "^(oom|timeout)-" | head -1)
msg=$(cat "$WORK"/log.* | grep -a -m1 -E "FUZZ-VIOLATION|ERROR: AddressSanitizer|unsafe precondition|panicked at" | cut -c1-400 | sed 's/"/'"'"'/g')
verdict=0
replay=""
# a panic raised inside the harness's own generator / oracle / bignum code (which never calls the code under
# test) is a harness bug, not a property violation: exit 2, like the native runner does
harness_bug=0
if echo "$msg" | grep -q -E "panicked at [^ ]*mlv/src/(gen|nat|oracle)\.rs"; then harness_bug=1; fi
if [ -n "$crash" ] && [ "$harness_bug" = 1 ]; then
  echo "HARNESS-ERROR: fuzz target $TARGET: the harness itself panicked: $msg" >&2
  verdict=2
elif [ -n "$crash" ]; then
  mkdir -p "$VERIF_DIR/replays"
  sum=$(sha1sum "$WORK/artifacts/$crash" | cut -c1-16)
  replay="$VERIF_DIR/replays/$ID-$TARGET-$MODE-$sum.bin"
  cp "$WORK/artifacts/$crash" "$replay"
  echo "fuzz crash in $TARGET: $msg" >&2
  echo "VIOLATION property=$ID replay=$replay"
  verdict=1
elif [ -n "$other" ] || [ "$status" -ne 0 ]; then
  echo "INCONCLUSIVE: fuzz campaign $TARGET ended with status $status ($other)" >&2
  verdict=2
fi
python3 - "$REPORT" <<PY
import json,sys
json.dump({"target":"$TARGET","build":"$MODE","engine":"libFuzzer (coverage feedback from the shim crates and mlc only), AddressSanitizer on the code under test, " + ("debug assertions + overflow checks on" if "$MODE"=="asan" else "debug assertions off (wrapping arithmetic, as shipped)"),
 "tier":"$TIER","processes":$NPROC,"runs_per_process":($RUNS if "$TIER"=="quick" else None),"executions":int("$execs" or 0),"new_units_added":int("$newu" or 0),"max_coverage_counters":int("$cov" or 0),"max_corpus_units":int("$corp" or 0),
 "seed_corpus_files":len(__import__("os").listdir("$HERE/seeds/$TARGET")) if __import__("os").path.isdir("$HERE/seeds/$TARGET") else 0,
 "wall_s":round($end-$start,1),"crash_artifact":"$replay" or None,"first_message":"""$msg""" or None,"verdict":$verdict}, open(sys.argv[1],"w"))
PY
exit $verdict
