#!/bin/bash
# RUSTC_WRAPPER for the fuzz builds: every crate gets AddressSanitizer, debug
# assertions and overflow checks (RUSTFLAGS), but only the code under test -
# the shim crates compiled from /repo/src and `mlc`, where every generic of
# minimal-lexical is instantiated - and the fuzz targets themselves get
# SanitizerCoverage (and the sanitizer itself, $FUZZ_SAN_FLAGS).  The harness's own oracle / bignum code stays
# uninstrumented: libFuzzer's feedback is then about the crate's branches only
# and the oracle does not pay the trace-compares tax.
rustc="$1"; shift
name=""
prev=""
for a in "$@"; do
  if [ "$prev" = "--crate-name" ]; then name="$a"; fi
  prev="$a"
done
case "$name" in
  ml_*|mlc|fz_*)
    exec "$rustc" "$@" $FUZZ_SAN_FLAGS -Cpasses=sancov-module \
      -Cllvm-args=-sanitizer-coverage-level=4 \
      -Cllvm-args=-sanitizer-coverage-inline-8bit-counters \
      -Cllvm-args=-sanitizer-coverage-pc-table \
      -Cllvm-args=-sanitizer-coverage-trace-compares
    ;;
  *) exec "$rustc" "$@" ;;
esac
