#!/bin/bash
# Build the libFuzzer targets (nightly, AddressSanitizer, debug assertions).
#   build.sh [asan|asanrel|plain]      default: asan
# `plain` = optimised, no sanitizer, no debug assertions (artifact replay on
# the code as users ship it).
set -u
HERE="$(cd "$(dirname "$0")" && pwd)"
VERIF_DIR="$(dirname "$HERE")"
BUILD="${VERIF_BUILD:-$VERIF_DIR/build}"
MODE="${1:-asan}"
export CARGO_NET_OFFLINE=true
export RUSTC_WRAPPER="$HERE/rustc_wrapper.sh"
TRIPLE=x86_64-unknown-linux-gnu
if [ "$MODE" = "asan" ]; then
  export CARGO_TARGET_DIR="$BUILD/fuzz-asan"
  export FUZZ_SAN_FLAGS="-Zsanitizer=address"
  export RUSTFLAGS="-Cdebug-assertions -Coverflow-checks -Ccodegen-units=4 -Cforce-frame-pointers --cfg fuzzing"
elif [ "$MODE" = "asanrel" ]; then
  # AddressSanitizer on the code as users ship it: no debug assertions, wrapping arithmetic,
  # so out-of-range "digits" really flow into table indices and the big integer
  export CARGO_TARGET_DIR="$BUILD/fuzz-asanrel"
  export FUZZ_SAN_FLAGS="-Zsanitizer=address"
  export RUSTFLAGS="-Ccodegen-units=4 -Cforce-frame-pointers --cfg fuzzing"
else
  export CARGO_TARGET_DIR="$BUILD/fuzz-plain"
  export FUZZ_SAN_FLAGS=""
  export RUSTFLAGS="-Ccodegen-units=4 --cfg fuzzing"
fi
mkdir -p "$BUILD"
log="$BUILD/fuzz-build-$MODE.log"
if ! (cd "$HERE" && cargo +nightly build --quiet --release --target $TRIPLE) >"$log" 2>&1; then
  cat "$log" >&2
  echo "INCONCLUSIVE: fuzz build ($MODE) failed; exit 2" >&2
  exit 2
fi
exit 0
