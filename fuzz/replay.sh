#!/bin/bash
# replay.sh <ID> <artifact.bin> : re-run a saved libFuzzer artifact (file name <ID>-<target>-<hash>.bin)
set -u
HERE="$(cd "$(dirname "$0")" && pwd)"
VERIF_DIR="$(dirname "$HERE")"
BUILD="${VERIF_BUILD:-$VERIF_DIR/build}"
ID="$1"; FILE="$2"
base=$(basename "$FILE")
TARGET=$(echo "$base" | sed -E 's/^[A-Z][0-9]+-(fz_[a-z]+)-.*$/\1/')
MODE=$(echo "$base" | sed -E 's/^[A-Z][0-9]+-fz_[a-z]+-(asanrel|asan)-.*$/\1/')
case "$MODE" in asan|asanrel) ;; *) MODE=asan ;; esac
"$HERE/build.sh" "$MODE" || exit 2
BIN="$BUILD/fuzz-$MODE/x86_64-unknown-linux-gnu/release/$TARGET"
[ -x "$BIN" ] || { echo "unknown fuzz target in $base" >&2; exit 2; }
export ASAN_OPTIONS="detect_leaks=0:abort_on_error=1:symbolize=1"
if "$BIN" "$FILE" -rss_limit_mb=4096 -timeout=120 2>&1 | tail -30; [ "${PIPESTATUS[0]}" -eq 0 ]; then
  echo "replay: property $ID holds on this input (asan + debug-assertion build)"
  exit 0
fi
echo "VIOLATION property=$ID replay=$FILE"
exit 1
