#!/usr/bin/env python3
"""Regenerate MANIFEST.json from the table below (keeps it valid at all times)."""
import json, subprocess, sys

CHECKS = {
 # id: (technique, level text, level note, design ref, engine)
 "C01": ("[release and debug-assertion (dbgchk) builds of the harness run the same cases] property-based testing (proptest, 16 seeded runners) with boundary-constructed generators + exact decimal-midpoint oracle over all 8 feature configurations; second engine: coverage-guided libFuzzer target fz_round (ASan) with the same oracle inside",
         "Generated-input search: millions of inputs constructed on and around f64 rounding boundaries (exact midpoints, continued-fraction closest approaches, cut-off positions, seams, range ends, long tails), parsed in all 8 configurations and judged two-sidedly by an independent exact oracle. Exploration, not proof: the f64 input space cannot be enumerated, so cases are placed on the algorithms' decision boundaries.",
         "Trusts the harness's own Nat arithmetic and midpoint oracle (self-tested every run against 16 820 golden vectors from the repository's own data, std's parser, and a second arithmetic formulation). Runs natively on x86_64; the crate's 32-bit-limb code is exercised by a Miri stage (--target i686) on 48 (quick) / 1200 (thorough) generated big-integer-path inputs with oracle verdicts.",
         "DESIGN.md section 2, C01", "mlv supervisor+libfuzzer"),
 "C02": ("[release and debug-assertion (dbgchk) builds of the harness run the same cases] property-based testing (proptest) with boundary-constructed generators + exact decimal-midpoint oracle; double-rounding traps; f32 boundary sweep by enumeration in the thorough tier",
         "Same engine as C01 for f32 (f32 constants), plus the double-rounding trap family; the thorough tier enumerates f32 rounding boundaries.",
         "Same trusted base as C01 (incl. the 32-bit-limb Miri stage, f32 inputs).", "DESIGN.md section 2, C02", "mlv supervisor"),
 "C03": ("[release and debug-assertion (dbgchk) builds of the harness run the same cases] round-trip property: generated floats + enumerated f32 bit patterns, five renderings each (shortest and 9/17 digits in scientific and in positional layout, exact expansion), parse back in all configurations",
         "Round-trip oracle parse(render(x)) == x; renderings validated by the exact oracle before use. f32 patterns enumerated (residue class in quick, all 2^31-2^23 in thorough); f64 sampled from structured classes.",
         "std's formatter only proposes renderings (validated); exact expansions from the harness's Nat.", "DESIGN.md section 2, C03", "mlv supervisor"),
 "C04": ("generated and grid-enumerated valid inputs under catch_unwind in two separately compiled builds (release; debug-assertions + overflow-checks + UB-precondition checks), process supervisor attributing aborts to a traced case",
         "Exploration of the panic-freedom contract over a full length x exponent x pattern x layout grid plus generated families that maximise big-integer size, in both builds and all 8 configurations.",
         "A panic site reachable only through Lemire's lo == u64::MAX fallback (a ~2^-73 coincidence) is not reached by generation.", "DESIGN.md section 2, C04", "mlv supervisor"),
 "C05": ("[release and debug-assertion (dbgchk) builds of the harness run the same cases] differential testing: 8 separately compiled feature configurations linked into one process, bit comparison on generated boundary inputs",
         "Differential oracle (no reference value needed) over the C01/C02 generator mixture for both formats.",
         "The 32-bit-limb variant is only interpreted (Miri, i686; four configurations, oracle verdicts computed natively) on 48 inputs in the quick and 1200 in the thorough tier; big-endian targets and the x87 `nightly` path are not executed.", "DESIGN.md section 2, C05", "mlv supervisor"),
 "C06": ("[release and debug-assertion (dbgchk) builds of the harness run the same cases] property-based testing with constructed long tails: deciding digit placed at chosen absolute positions (19-digit cut, MAX_DIGITS cut, chunk edges, 1e3..1e6), expectation by construction and by the exact oracle",
         "Every case has >= 20 significant digits and sits on a rounding boundary; positions sweep every cut-off the code has.",
         "Same oracle as C01.", "DESIGN.md section 2, C06", "mlv supervisor"),
 "C07": ("[release and debug-assertion (dbgchk) builds of the harness run the same cases] property-based testing at the range ends: midpoints around 0 / min subnormal / min normal / MAX, zero significands, compensated and uncompensable extreme exponents, interior points of the rounding interval for subnormals of every bit length; exact oracle with the overflow/underflow thresholds built in",
         "Exploration concentrated on the IEEE thresholds and on exponent arithmetic at the i32 limits.",
         "Same oracle as C01 (exponent arithmetic in i64).", "DESIGN.md section 2, C07", "mlv supervisor"),
 "C08": ("coverage-guided fuzzing (libFuzzer target fz_bytes) under AddressSanitizer in two builds (debug assertions on / off) + proptest over hostile byte strings in release and debug-assertion builds under a process supervisor",
         "Memory-safety contract observed through ASan, core's UB-precondition checks and abnormal process exits; outcome classes value / clean panic are both accepted.",
         "UB invisible to ASan, the precondition checks and process exit status is not observed.", "DESIGN.md section 2, C08", "libfuzzer+mlv supervisor"),
 "C09": ("[release and debug-assertion (dbgchk) builds of the harness run the same cases] metamorphic property-based testing: chains of inputs ordered by construction (re-verified by exact decimal comparison), parsed bits must be non-decreasing",
         "Order-preservation checked along generated chains that straddle rounding boundaries, algorithm seams and layouts; the rounding oracle is not consulted.",
         "Only generated pairs are compared; each side is separately covered by C01/C02.", "DESIGN.md section 2, C09", "mlv supervisor"),
 "C10": ("[release and debug-assertion (dbgchk) builds of the harness run the same cases] metamorphic property-based testing: all re-splittings / zero paddings of one digit sequence must parse to identical bits",
         "Groups of representations of one value (splits, leading fraction zeros, trailing integer zeros, appended fraction zeros) compared against the canonical member in all configurations.",
         "Exponents stay clear of i32 saturation so value equality is exact (re-verified).", "DESIGN.md section 2, C10", "mlv supervisor"),
 "C11": ("[release and debug-assertion (dbgchk) builds of the harness run the same cases] direct calls of the moderate stage on an enumerated table of continued-fraction closest approaches plus generated (w,q,t), judged by the exact oracle incl. the interval condition for truncated inputs",
         "Constructed, not sampled: for each decimal exponent and binade the inputs a 64/128-bit approximation is most likely to misjudge; declines are accepted, definite answers must be right.",
         "Domain: t=true implies 1 <= w <= u64::MAX-1 (caller-established).", "DESIGN.md section 2, C11", "mlv supervisor"),
 "C12": ("model-based property testing of every big-integer operation against the harness's Nat, operands hovering around the 62-limb capacity, stack and heap back-ends, release and debug-assertion builds; libFuzzer target fz_vec under ASan",
         "Exact-result / reported-overflow rule checked per operation; 'writing outside its buffer' observed by ASan and UB-precondition checks.",
         "Operands are non-zero as the property quantifies; un-normalised operands get the representation-based failure rule. Exponents / shift counts far beyond the capacity (whole u32 range) are applied to the fixed-capacity back-end only and must report failure.", "DESIGN.md section 2, C12", "mlv supervisor+libfuzzer"),
 "C13": ("stateful model-based testing: generated operation histories interpreted against StackVec / HeapVec and a Vec<u64> reference, invariants after every step; stack poisoning; libFuzzer target fz_vec under ASan",
         "Histories sized to reach capacity, shrink and regrow; rejected growth must leave contents unchanged.",
         "Contents after a failed add_small/mul_small are unspecified.", "DESIGN.md section 2, C13", "mlv supervisor+libfuzzer"),
 "C14": ("complete enumeration of every exposed power constant and on-demand power in each configuration, recomputed from its mathematical definition with the harness's Nat; limb-width dependent constants also on the 32-bit-limb build interpreted by Miri",
         "Finite domain enumerated completely on every run (exhaustive: true): 651 x 128-bit Lemire entries, exponent formula, small integer/float tables, 5^135, Bellerophon tables, pow_fast_path, libm pow, integer powers via public routes.",
         "Values are read from the compiled crate, not from source text; definitions re-derived from the generator scripts' closed forms. The 32-bit-limb copy of 5^135 is checked under Miri (i686).", "DESIGN.md section 2, C14", "mlv"),
 "C15": ("counting global allocator around each parse_float call on generated big-integer-path inputs, with a positive control in the alloc configurations",
         "Zero-allocation contract observed per call in the 4 configurations without alloc, through slice and filter iterators, in an optimised (release) and a lightly optimised (dbgchk) build.",
         "Allocation on a path no generated input takes is not observed.", "DESIGN.md section 2, C15", "mlv"),
 "C16": ("differential property-based testing over iterator shapes, buffer addresses, call histories with stack poisoning, and 16 concurrent threads",
         "Purity checked against the baseline slice-iterator call in all configurations.",
         "The harness does not own the thread schedule: shared mutable state would show, a rare interleaving might not.", "DESIGN.md section 2, C16", "mlv"),
 "C17": ("exhaustive enumeration of all 2^32 f32 bit patterns + structured grid and samples of f64 patterns against an independent IEEE-754 decode and an arithmetic confirmation",
         "f32 exhaustive on every run; f64 structured grid (all exponents x special mantissas) plus a sample.",
         "is_denormal(+-0) itself is unconstrained.", "DESIGN.md section 2, C17", "mlv"),
 "C18": ("enumerated grid (every exponent in range x structured kept/dropped bit patterns) + random pairs against an exact integer reference rounding; mask helpers for all widths; a reduced grid re-run on a 32-bit-usize target under Miri",
         "The rounding primitive is called directly in all configurations; every grid point sits on a rounding decision.",
         "Truncating variant above MAX: +inf and MAX both accepted.", "DESIGN.md section 2, C18", "mlv"),
 "C19": ("property-based testing of the repository's own front-end copies (compiled from the repository sources) against a reference scanner + exact oracle; libFuzzer target fz_frontend under ASan; release and debug-assertion builds",
         "Suffix identity, value, sign, specials, saturation and panic-freedom for grammar-derived, mutated and arbitrary byte strings; the copies are compared with each other where their grammars coincide.",
         "Two correctness tools needing uncached crates are not executed.", "DESIGN.md section 2, C19", "mlv supervisor+libfuzzer"),
}

NOT_YET = {
}

def main():
    props = [json.loads(l) for l in open("properties.jsonl")]
    ids = [p["id"] for p in props]
    checks = []
    for i in ids:
        if i in CHECKS:
            tech, text, note, ref, engine = CHECKS[i]
            checks.append({
                "property_id": i,
                "quick_cmd": f"./run.sh {i} quick",
                "thorough_cmd": f"./run.sh {i} thorough",
                "evidence_file": f"/verif/evidence/{i}.json",
                "replay_cmd_template": f"./run.sh {i} --replay {{path}}",
                "engine": engine,
                "level_claimed": {"category": "exploration", "text": text, "design_ref": ref},
                "level_note": note,
                "technique": tech,
            })
    na = [{"property_id": i, "reason": NOT_YET.get(i, "check under construction in this round; not claimed until it runs clean on the unchanged tree")} for i in ids if i not in CHECKS]
    hooks_commits = subprocess.run(["git", "-C", "/repo", "log", "--format=%H", "--grep", "verif feature"], capture_output=True, text=True).stdout.split()
    m = {
        "version": 1,
        "setup_cmd": "./run.sh setup",
        "hooks": {
            "guard": "cargo feature `verif` (off by default)",
            "enable": "the shim packages under harness/shims/* compile /repo/src/lib.rs with feature `verif` on (plus the feature set of the configuration they stand for)",
            "baseline_off_cmd": "cd /repo && cargo test --workspace --no-fail-fast --offline",
            "source_commits": hooks_commits,
            "add_only": True,
        },
        "engines": [
            {"name": "mlv", "path": "harness/mlv", "serves_properties": sorted(CHECKS.keys()),
             "kind_free_text": "Rust binary: 16 proptest TestRunners (fixed seeds from VERIF_SEED) / exhaustive sweeps over all 8 feature configurations linked side by side via shim crates (harness/mlc); exact Nat-based rounding oracle; shrinking to replay files; supervisor mode runs release and dbgchk worker processes and attributes aborts"},
            {"name": "libfuzzer", "path": "fuzz", "serves_properties": ["C01", "C08", "C12", "C13", "C19"],
             "kind_free_text": "libFuzzer targets fz_bytes, fz_frontend, fz_vec, fz_round built on nightly with AddressSanitizer; coverage instrumentation only on the code under test; semantic oracles inside the targets; driven by fuzz/campaign.sh from the property's command"},
        ],
        "checks": checks,
        "not_applicable": na,
        "notes": "Every check: exit 0 = held, exit 1 + VIOLATION line = violation, exit 2 = harness problem/inconclusive. known_findings.txt lists fixed/known findings. See DESIGN.md.",
    }
    json.dump(m, open("MANIFEST.json", "w"), indent=1)
    try:
        import jsonschema
        jsonschema.validate(m, json.load(open("/root/.vp/MANIFEST.schema.json")))
        print("MANIFEST.json valid;", len(checks), "checks,", len(na), "not_applicable")
    except ImportError:
        print("jsonschema not available; wrote MANIFEST.json")

if __name__ == "__main__":
    main()
