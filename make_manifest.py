#!/usr/bin/env python3
"""Regenerate MANIFEST.json from the table below (keeps it valid at all times)."""
import json, subprocess, sys

CHECKS = {
 # id: (technique, level text, level note, design ref, engine)
 "C01": ("property-based testing (proptest) with boundary-constructed generators + exact decimal midpoint oracle, all 8 feature configurations in one process",
         "Generated-input search: millions of inputs constructed on and around f64 rounding boundaries (exact midpoints, continued-fraction closest approaches, cut-off positions, range ends, long tails), parsed in all 8 configurations and judged two-sidedly by an independent exact oracle. Exploration, not proof: the f64 input space cannot be enumerated, so cases are placed on the algorithms' decision boundaries.",
         "Trusts the harness's own Nat arithmetic and midpoint oracle (self-tested every run against 16 820 golden vectors from the repo's own data, std's parser, and a second arithmetic formulation). x86_64 only.",
         "DESIGN.md 2/C01", "mlv"),
 "C02": ("property-based testing (proptest) with boundary-constructed generators + exact decimal midpoint oracle; double-rounding traps; f32 boundary sweep in the thorough tier",
         "Same engine as C01 for f32, plus the double-rounding trap family; thorough tier sweeps f32 rounding boundaries by enumeration.",
         "Same trusted base as C01.",
         "DESIGN.md 2/C02", "mlv"),
}

NOT_YET = {
}

def main():
    props = [json.loads(l) for l in open("properties.jsonl")]
    ids = [p["id"] for p in props]
    checks = []
    for i in ids:
        if i in CHECKS:
            tech, text, note, ref, engine = CHECKS[i]
            checks.append({
                "property_id": i,
                "quick_cmd": f"./run.sh {i} quick",
                "thorough_cmd": f"./run.sh {i} thorough",
                "evidence_file": f"/verif/evidence/{i}.json",
                "replay_cmd_template": f"./run.sh {i} --replay {{path}}",
                "engine": engine,
                "level_claimed": {"category": "exploration", "text": text, "design_ref": ref},
                "level_note": note,
                "technique": tech,
            })
    na = [{"property_id": i, "reason": NOT_YET.get(i, "check under construction in this round; not claimed until it runs clean on the unchanged tree")} for i in ids if i not in CHECKS]
    hooks_commits = subprocess.run(["git", "-C", "/repo", "log", "--format=%H", "--grep", "verif feature"], capture_output=True, text=True).stdout.split()
    m = {
        "version": 1,
        "setup_cmd": "./run.sh setup",
        "hooks": {
            "guard": "cargo feature `verif` (off by default)",
            "enable": "the shim packages under harness/shims/* compile /repo/src/lib.rs with feature `verif` on (plus the feature set of the configuration they stand for)",
            "baseline_off_cmd": "cd /repo && cargo test --workspace --no-fail-fast --offline",
            "source_commits": hooks_commits,
            "add_only": True,
        },
        "engines": [
            {"name": "mlv", "path": "harness/mlv", "serves_properties": sorted(CHECKS.keys()),
             "kind_free_text": "Rust binary: 16 proptest TestRunners (fixed seeds from VERIF_SEED) / exhaustive sweeps over all 8 feature configurations linked side by side via shim crates; exact Nat-based rounding oracle; shrinking to replay files"},
        ],
        "checks": checks,
        "not_applicable": na,
        "notes": "Every check: exit 0 = held, exit 1 + VIOLATION line = violation, exit 2 = harness problem/inconclusive. known_findings.txt lists fixed/known findings. See DESIGN.md.",
    }
    json.dump(m, open("MANIFEST.json", "w"), indent=1)
    try:
        import jsonschema
        jsonschema.validate(m, json.load(open("/root/.vp/MANIFEST.schema.json")))
        print("MANIFEST.json valid;", len(checks), "checks,", len(na), "not_applicable")
    except ImportError:
        print("jsonschema not available; wrote MANIFEST.json")

if __name__ == "__main__":
    main()
