#!/bin/bash
# Sensitivity driver: prove that the checks fire.
#   ./sensitivity.sh [--patches <dir-or-file>...] [--checks expected|all|"C01 C02 ..."] [--fuzz] [--out <file>]
# Works on a scratch clone of /verif and /repo under /tmp (removed afterwards), so /repo and
# /verif are never touched.  For each patch: apply it to the scratch repository, confirm that the
# repository's own test suite still passes (a mutant the suite already kills proves nothing),
# run the chosen checks' quick tier, record which of them exit 1 with a VIOLATION line.
set -u
HERE="$(cd "$(dirname "$0")" && pwd)"
PATCHES=()
CHECKS="expected"
FUZZ=0
OUT="$HERE/mutants/RESULTS.json"
while [ $# -gt 0 ]; do
  case "$1" in
    --patches) shift; while [ $# -gt 0 ] && [ "${1#--}" = "$1" ]; do PATCHES+=("$1"); shift; done ;;
    --checks) CHECKS="$2"; shift 2 ;;
    --fuzz) FUZZ=1; shift ;;
    --out) OUT="$2"; shift 2 ;;
    *) echo "unknown argument $1" >&2; exit 2 ;;
  esac
done
[ ${#PATCHES[@]} -eq 0 ] && PATCHES=("$HERE/mutants")
S="$(mktemp -d /tmp/mlv-sens-XXXXXX)"
trap 'rm -rf "$S"' EXIT
mkdir -p "$S/verif" "$S/repo"
rsync -a --exclude build --exclude replays --exclude .git "$HERE/" "$S/verif/"
rsync -a --exclude target "${VERIF_REPO_SRC:-/repo}/" "$S/repo/"
git -C "$S/repo" checkout -q -- . 2>/dev/null
export VERIF_REPO="$S/repo"
(cd "$S/verif/harness" && ./gen_shims.sh)
[ "$FUZZ" = 1 ] || export MLV_SKIP_FUZZ=1
export VERIF_SEED="${VERIF_SEED:-0}"
files=()
for p in "${PATCHES[@]}"; do
  if [ -d "$p" ]; then for f in "$p"/*.patch "$p"/*.diff "$p"/*/patch.diff; do [ -f "$f" ] && files+=("$f"); done; else files+=("$p"); fi
done
"$S/verif/run.sh" C14 quick >/dev/null 2>&1   # warm build
echo "[" > "$OUT.tmp"; first=1
for f in "${files[@]}"; do
  name=$(basename "$f"); name="${name%.*}"
  [ "$name" = "patch" ] && name=$(basename "$(dirname "$f")")
  if ! git -C "$S/repo" apply "$f" 2>/dev/null; then echo "$name: patch does not apply" >&2; continue; fi
  suite="pass"
  (cd "$S/repo" && cargo test --offline >/dev/null 2>&1) || suite="FAIL"
  case "$CHECKS" in
    own) ids="${name%%-*}"
         # a seed whose meta.json names the properties it really violates is judged against those
         if [ -f "$(dirname "$f")/meta.json" ]; then
           v=$(python3 -c "
import json
m=json.load(open('$(dirname "$f")/meta.json')); print(' '.join(m.get('violates',[])))" 2>/dev/null)
           [ -n "$v" ] && ids="$v"
         fi ;;
    expected) ids=$(python3 -c "
import json,sys
idx={m['name']:m for m in json.load(open('$HERE/mutants/index.json'))}
print(' '.join(idx.get('$name',{}).get('expected',[])))") ;;
    all) ids="C01 C02 C03 C04 C05 C06 C07 C08 C09 C10 C11 C12 C13 C14 C15 C16 C17 C18 C19" ;;
    *) ids="$CHECKS" ;;
  esac
  caught=""; missed=""; broken=""
  for id in $ids; do
    out=$("$S/verif/run.sh" "$id" quick 2>&1); rc=$?
    if [ $rc -eq 1 ] && echo "$out" | grep -q "^VIOLATION property=$id"; then caught="$caught $id";
    elif [ $rc -eq 0 ]; then missed="$missed $id";
    else broken="$broken $id($rc)"; fi
  done
  git -C "$S/repo" checkout -q -- .
  echo "$name: suite=$suite caught=[$caught ] missed=[$missed ] inconclusive=[$broken ]"
  [ $first = 1 ] || echo "," >> "$OUT.tmp"; first=0
  printf '{"mutant": "%s", "suite": "%s", "caught": "%s", "missed": "%s", "inconclusive": "%s"}' "$name" "$suite" "$caught" "$missed" "$broken" >> "$OUT.tmp"
done
echo "]" >> "$OUT.tmp"; mv "$OUT.tmp" "$OUT"
