#!/usr/bin/env python3
"""Insert design_as_built.md (with the sensitivity tables filled in from mutants/RESULTS.json,
seeded/MATRIX.json and the seeds' meta.json) into DESIGN.md after the contents list."""
import json, os, re, glob
def row(cells): return "| " + " | ".join(cells) + " |"
# seeds
matrix = {m["mutant"]: m for m in json.load(open("seeded/MATRIX.json"))} if os.path.exists("seeded/MATRIX.json") else {}
m2 = {m["mutant"]: m for m in json.load(open("seeded/MATRIX-w2.json"))} if os.path.exists("seeded/MATRIX-w2.json") else {}
mall = {m["mutant"]: m for m in json.load(open("seeded/MATRIX-all.json"))} if os.path.exists("seeded/MATRIX-all.json") else {}
matrix.update({k: v for k, v in mall.items() if re.fullmatch(r"C\d\d-\d", k)})
m2.update({k: v for k, v in mall.items() if "-w2-" in k})
for sd in ("C03-1", "C03-2"):
    if sd in m2 and sd not in matrix:
        matrix[sd] = m2[sd]
own = {}
if os.path.exists("seeded/OWN.json"):
    own = json.load(open("seeded/OWN.json"))
lines = [row(["seed", "what was changed (file)", "caught by own property (quick)", "also caught by"]), "|---|---|---|---|"]
for d in sorted(glob.glob("seeded/C??-?")):
    seed = os.path.basename(d)
    patch = open(f"{d}/patch.diff").read()
    files = sorted(set(re.findall(r"^\+\+\+ b/(\S+)", patch, re.M)))
    prop = seed.split("-")[0]
    m = matrix.get(seed)
    others = " ".join(c for c in (m["caught"].split() if m else []) if c != prop) or ("-" if m else "(not in matrix run)")
    o = own.get(seed, {})
    lines.append(row([seed, ", ".join(files), o.get("summary", "yes"), others]))
seed_table = "\n".join(lines)
res = json.load(open("mutants/RESULTS.json"))
idx = {m["name"]: m for m in json.load(open("mutants/index.json"))}
lines = [row(["mutant", "file", "pinned suite", "caught by", "not caught by (of those run)"]), "|---|---|---|---|---|"]
for m in res:
    lines.append(row([m["mutant"], idx.get(m["mutant"], {}).get("file", ""), "kills it" if m["suite"] != "pass" else "green", m["caught"].strip() or "-", (m["missed"].strip() + " " + m["inconclusive"].strip()).strip() or "-"]))
mut_table = "\n".join(lines)
# wave 2
first = {}
if os.path.exists("seeded/OWN-w2-first.json"):
    first = json.load(open("seeded/OWN-w2-first.json"))
lines = [row(["seed", "what was changed (file)", "own property, first evaluation", "own property, after strengthening", "all checks catching it now (fuzz stage off)"]), "|---|---|---|---|---|"]
for d in sorted(glob.glob("seeded/C??-w2-?")):
    seed = os.path.basename(d)
    patch = open(f"{d}/patch.diff").read()
    files = sorted(set(re.findall(r"^\+\+\+ b/(\S+)", patch, re.M)))
    m = m2.get(seed)
    lines.append(row([seed, ", ".join(files), first.get(seed, "?"), "caught", (m["caught"].strip() if m else "(matrix pending)")]))
seed2_table = "\n".join(lines)
own3 = json.load(open("seeded/OWN-w3.json")) if os.path.exists("seeded/OWN-w3.json") else {}
first3 = json.load(open("seeded/OWN-w3-first.json")) if os.path.exists("seeded/OWN-w3-first.json") else {}
lines = [row(["seed", "what was changed (file)", "own property, first evaluation", "own property now (quick)", "all checks catching it (matrix run, fuzz stage off)"]), "|---|---|---|---|---|"]
for d in sorted(glob.glob("seeded/C??-w3-?")):
    seed = os.path.basename(d)
    patch = open(f"{d}/patch.diff").read()
    files = sorted(set(re.findall(r"^\+\+\+ b/(\S+)", patch, re.M)))
    m = mall.get(seed)
    lines.append(row([seed, ", ".join(files), first3.get(seed, "?"), own3.get(seed, "?"), (m["caught"].strip() if m else "(not in matrix run)")]))
seed3_table = "\n".join(lines)
def wave_table(w):
    own = json.load(open(f"seeded/OWN-w{w}.json")) if os.path.exists(f"seeded/OWN-w{w}.json") else {}
    first = json.load(open(f"seeded/OWN-w{w}-first.json")) if os.path.exists(f"seeded/OWN-w{w}-first.json") else {}
    lines = [row(["seed", "what was changed (file)", "own property, first evaluation", "own property now (quick)"]), "|---|---|---|---|"]
    for d in sorted(glob.glob(f"seeded/C??-w{w}-?")):
        seed = os.path.basename(d)
        patch = open(f"{d}/patch.diff").read()
        files = sorted(set(re.findall(r"^\+\+\+ b/(\S+)", patch, re.M)))
        lines.append(row([seed, ", ".join(files), first.get(seed, "?"), own.get(seed, "?")]))
    return "\n".join(lines)
seed4_table = wave_table(4)
seed5_table = wave_table(5)
seed6_table = wave_table(6)
seed7_table = wave_table(7)
seed8_table = wave_table(8)
seed9_table = wave_table(9)
seed10_table = wave_table(10)
seed11_table = wave_table(11)
seed12_table = wave_table(12)
seed13_table = wave_table(13)
seed14_table = wave_table(14)
seed15_table = wave_table(15)
seed16_table = wave_table(16)
seed17_table = wave_table(17)
seed18_table = wave_table(18)
seed19_table = wave_table(19)
seed20_table = wave_table(20)
seed21_table = wave_table(21)
seed22_table = wave_table(22)
w6_count = str(len(glob.glob('seeded/C??-w6-?')))
body = open("design_as_built.md").read().replace("@SEED3_TABLE@", seed3_table).replace("@SEED4_TABLE@", seed4_table).replace("@SEED5_TABLE@", seed5_table).replace("@SEED6_TABLE@", seed6_table).replace("@SEED7_TABLE@", seed7_table).replace("@SEED8_TABLE@", seed8_table).replace("@SEED9_TABLE@", seed9_table).replace("@SEED10_TABLE@", seed10_table).replace("@SEED11_TABLE@", seed11_table).replace("@SEED12_TABLE@", seed12_table).replace("@SEED13_TABLE@", seed13_table).replace("@SEED14_TABLE@", seed14_table).replace("@SEED15_TABLE@", seed15_table).replace("@SEED16_TABLE@", seed16_table).replace("@SEED17_TABLE@", seed17_table).replace("@SEED18_TABLE@", seed18_table).replace("@SEED19_TABLE@", seed19_table).replace("@SEED20_TABLE@", seed20_table).replace("@SEED21_TABLE@", seed21_table).replace("@SEED22_TABLE@", seed22_table).replace("@W6_COUNT@", w6_count).replace("@SEED2_TABLE@", seed2_table).replace("@SEED_TABLE@", seed_table).replace("@MUTANT_TABLE@", mut_table)
body = body.replace("@THOROUGH_NOTE@", open("thorough_note.md").read().strip() if os.path.exists("thorough_note.md") else "")
d = open("DESIGN.md").read()
start = d.find("## A. As built")
if start >= 0:
    end = d.index("## 0. What is being verified")
    d = d[:start] + d[end:]
marker = "## 0. What is being verified"
i = d.index(marker)
sep = "---------------------------------------------------------------------------------------\n\n"
d = d[:i] + body.rstrip() + "\n\n" + sep + d[i:]
open("DESIGN.md", "w").write(d)
print("DESIGN.md updated:", len(d.splitlines()), "lines")
