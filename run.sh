#!/bin/bash
# Entry point for every check.
#   ./run.sh setup                    build everything once (offline)
#   ./run.sh <ID> quick|thorough      run a property's check (rebuilds from /repo's working tree)
#   ./run.sh <ID> --replay <file>     re-execute a saved failing input
# Exit codes: 0 = property held on everything explored; 1 = violation (a line
# "VIOLATION property=<ID> replay=<path>" is printed); 2 = harness problem /
# inconclusive (never a violation).
set -u
VERIF_DIR="$(cd "$(dirname "$0")" && pwd)"
export VERIF_DIR
export CARGO_NET_OFFLINE=true
BUILD="${VERIF_BUILD:-$VERIF_DIR/build}"
export CARGO_TARGET_DIR="$BUILD/harness"
export VERIF_SEED="${VERIF_SEED:-0}"
mkdir -p "$BUILD" "$VERIF_DIR/evidence" "$VERIF_DIR/replays"

# The dbgchk build is also the "native CPU" build: compiled with -C target-cpu=native (into its own target
# directory), so that code behind cfg(target_feature = ...) - AVX2 fast paths and the like - is compiled in and
# exercised by one of the two workers of every supervised property.
NATIVE_TARGET_DIR="$BUILD/harness-native"
build_harness() { # profile...
  local log="$BUILD/build.log"
  for prof in "$@"; do
    local tdir="$CARGO_TARGET_DIR" flags="${RUSTFLAGS:-}"
    if [ "$prof" = "dbgchk" ]; then tdir="$NATIVE_TARGET_DIR"; flags="$flags -C target-cpu=native"; fi
    if ! (cd "$VERIF_DIR/harness" && CARGO_TARGET_DIR="$tdir" RUSTFLAGS="$flags" cargo build --quiet --profile "$prof" -p mlv) >"$log" 2>&1; then
      cat "$log" >&2
      echo "INCONCLUSIVE: harness build failed (profile $prof); exit 2" >&2
      return 2
    fi
  done
  return 0
}

needs_dbgchk() { case "$1" in C01|C02|C03|C04|C05|C06|C07|C08|C09|C10|C11|C12|C13|C15|C16|C19|setup) return 0;; *) return 1;; esac; }

if [ $# -lt 1 ]; then echo "usage: $0 <ID> quick|thorough | <ID> --replay <file> | setup" >&2; exit 2; fi
ID="$1"; shift

if [ "$ID" = "setup" ]; then
  build_harness release dbgchk dbg0 || exit 2
  "$VERIF_DIR/fuzz/build.sh" asan || exit 2
  "$VERIF_DIR/fuzz/build.sh" asanrel || exit 2
  # Miri sysroots and the interpreted harness (32-bit-limb stage of C14/C05, thorough-tier Miri stages)
  (cd "$VERIF_DIR/harness" && for t in i686-unknown-linux-gnu powerpc-unknown-linux-gnu x86_64-unknown-linux-gnu; do
     MIRIFLAGS="-Zmiri-tree-borrows -Zmiri-disable-isolation -Zmiri-no-extra-rounding-error" CARGO_TARGET_DIR="$BUILD/miri" \
       cargo +nightly miri run -q --target $t -p mlv --bin mlv-miri -- L32 0 0 >"$BUILD/miri-setup-$t.log" 2>&1 || { cat "$BUILD/miri-setup-$t.log" >&2; exit 2; }
   done) || exit 2
  "$CARGO_TARGET_DIR/release/mlv" selftest || exit 2
  exit 0
fi

profiles=(release)
if needs_dbgchk "$ID"; then profiles+=(dbgchk); fi
if [ "$ID" = "C19" ] || [ "$ID" = "C04" ] || [ "$ID" = "C07" ]; then profiles+=(dbg0); fi   # unoptimised build for the deep-input stack check
build_harness "${profiles[@]}" || exit 2
export MLV_DBGCHK_BIN="$NATIVE_TARGET_DIR/dbgchk/mlv"
export MLV_DBG0_BIN="$CARGO_TARGET_DIR/dbg0/mlv"
export MLV_FUZZ_DIR="$VERIF_DIR/fuzz"
export MLV_BUILD_DIR="$BUILD"

if [ "${1:-}" = "--replay" ]; then
  case "${2:-}" in
    *.bin) exec "$VERIF_DIR/fuzz/replay.sh" "$ID" "$2" ;;
  esac
  exec "$CARGO_TARGET_DIR/release/mlv" "$ID" --replay "$2"
fi
TIER="${1:-${VERIF_TIER:-quick}}"
exec "$CARGO_TARGET_DIR/release/mlv" "$ID" "$TIER"
