//! `Nat`: the harness's own arbitrary-precision natural numbers.
//!
//! Deliberately boring: `Vec<u64>` little-endian limbs, always normalised (no
//! leading zero limbs), no unsafe, no fixed capacity.  It shares no code and no
//! table with minimal-lexical's `bigint` module; it is the reference model for
//! C12/C13, recomputes every table entry for C14 and produces the exact decimal
//! expansions of rounding boundaries for the oracle.

use std::cmp::Ordering;

#[derive(Clone, Debug, PartialEq, Eq, Default)]
pub struct Nat {
    pub l: Vec<u64>,
}

const CHUNK: u64 = 10_000_000_000_000_000_000; // 10^19
const CHUNK_DIGITS: usize = 19;

impl Nat {
    pub fn zero() -> Nat {
        Nat { l: Vec::new() }
    }
    pub fn one() -> Nat {
        Nat { l: vec![1] }
    }
    pub fn from_u64(v: u64) -> Nat {
        if v == 0 {
            Nat::zero()
        } else {
            Nat { l: vec![v] }
        }
    }
    pub fn from_u128(v: u128) -> Nat {
        let mut n = Nat { l: vec![v as u64, (v >> 64) as u64] };
        n.trim();
        n
    }
    /// From little-endian limbs (need not be normalised).
    pub fn from_limbs(x: &[u64]) -> Nat {
        let mut n = Nat { l: x.to_vec() };
        n.trim();
        n
    }
    fn trim(&mut self) {
        while let Some(&0) = self.l.last() {
            self.l.pop();
        }
    }
    pub fn is_zero(&self) -> bool {
        self.l.is_empty()
    }
    pub fn is_odd(&self) -> bool {
        self.l.first().map_or(false, |x| x & 1 == 1)
    }
    pub fn limbs(&self) -> usize {
        self.l.len()
    }
    /// Number of significant bits (0 for zero).
    pub fn bits(&self) -> u64 {
        match self.l.last() {
            None => 0,
            Some(&top) => 64 * self.l.len() as u64 - top.leading_zeros() as u64,
        }
    }
    pub fn bit(&self, i: u64) -> bool {
        let (q, r) = ((i / 64) as usize, i % 64);
        q < self.l.len() && (self.l[q] >> r) & 1 == 1
    }
    pub fn to_u64(&self) -> Option<u64> {
        match self.l.len() {
            0 => Some(0),
            1 => Some(self.l[0]),
            _ => None,
        }
    }
    pub fn to_u128(&self) -> Option<u128> {
        match self.l.len() {
            0 => Some(0),
            1 => Some(self.l[0] as u128),
            2 => Some(self.l[0] as u128 | (self.l[1] as u128) << 64),
            _ => None,
        }
    }
    /// Are any of the low `n` bits set?
    pub fn low_bits_nonzero(&self, n: u64) -> bool {
        let full = (n / 64) as usize;
        for i in 0..full.min(self.l.len()) {
            if self.l[i] != 0 {
                return true;
            }
        }
        let r = n % 64;
        if r != 0 && full < self.l.len() {
            return self.l[full] & ((1u64 << r) - 1) != 0;
        }
        false
    }

    pub fn add(&self, o: &Nat) -> Nat {
        let (a, b) = if self.l.len() >= o.l.len() { (self, o) } else { (o, self) };
        let mut out = Vec::with_capacity(a.l.len() + 1);
        let mut carry = 0u128;
        for i in 0..a.l.len() {
            let s = a.l[i] as u128 + if i < b.l.len() { b.l[i] as u128 } else { 0 } + carry;
            out.push(s as u64);
            carry = s >> 64;
        }
        if carry != 0 {
            out.push(carry as u64);
        }
        Nat { l: out }
    }
    pub fn add_small(&self, v: u64) -> Nat {
        self.add(&Nat::from_u64(v))
    }
    /// self - o; panics if o > self.
    pub fn sub(&self, o: &Nat) -> Nat {
        assert!(self.cmp(o) != Ordering::Less, "Nat::sub underflow");
        let mut out = Vec::with_capacity(self.l.len());
        let mut borrow = 0i128;
        for i in 0..self.l.len() {
            let mut d = self.l[i] as i128 - borrow - if i < o.l.len() { o.l[i] as i128 } else { 0 };
            if d < 0 {
                d += 1i128 << 64;
                borrow = 1;
            } else {
                borrow = 0;
            }
            out.push(d as u64);
        }
        let mut n = Nat { l: out };
        n.trim();
        n
    }
    pub fn mul_small(&self, v: u64) -> Nat {
        if v == 0 || self.is_zero() {
            return Nat::zero();
        }
        let mut out = Vec::with_capacity(self.l.len() + 1);
        let mut carry = 0u128;
        for &x in &self.l {
            let p = x as u128 * v as u128 + carry;
            out.push(p as u64);
            carry = p >> 64;
        }
        if carry != 0 {
            out.push(carry as u64);
        }
        Nat { l: out }
    }
    /// Column-wise schoolbook product (a different loop structure from the
    /// crate's row-by-row `long_mul`).
    pub fn mul(&self, o: &Nat) -> Nat {
        if self.is_zero() || o.is_zero() {
            return Nat::zero();
        }
        let n = self.l.len() + o.l.len();
        let mut out = vec![0u64; n];
        // accumulate per column with a 192-bit accumulator (lo: u128, hi: u64)
        let mut acc_lo: u128 = 0;
        let mut acc_hi: u64 = 0;
        for k in 0..n - 1 {
            let i_min = k.saturating_sub(o.l.len() - 1);
            let i_max = k.min(self.l.len() - 1);
            for i in i_min..=i_max {
                let p = self.l[i] as u128 * o.l[k - i] as u128;
                let (s, c) = acc_lo.overflowing_add(p);
                acc_lo = s;
                if c {
                    acc_hi += 1;
                }
            }
            out[k] = acc_lo as u64;
            acc_lo = (acc_lo >> 64) | ((acc_hi as u128) << 64);
            acc_hi = 0;
        }
        out[n - 1] = acc_lo as u64;
        debug_assert!(acc_lo >> 64 == 0);
        let mut r = Nat { l: out };
        r.trim();
        r
    }
    pub fn shl(&self, n: u64) -> Nat {
        if self.is_zero() {
            return Nat::zero();
        }
        let (q, r) = ((n / 64) as usize, (n % 64) as u32);
        let mut out = vec![0u64; q];
        if r == 0 {
            out.extend_from_slice(&self.l);
        } else {
            let mut prev = 0u64;
            for &x in &self.l {
                out.push((x << r) | (prev >> (64 - r)));
                prev = x;
            }
            let top = prev >> (64 - r);
            if top != 0 {
                out.push(top);
            }
        }
        Nat { l: out }
    }
    pub fn shr(&self, n: u64) -> Nat {
        let (q, r) = ((n / 64) as usize, (n % 64) as u32);
        if q >= self.l.len() {
            return Nat::zero();
        }
        let src = &self.l[q..];
        let mut out = Vec::with_capacity(src.len());
        if r == 0 {
            out.extend_from_slice(src);
        } else {
            for i in 0..src.len() {
                let hi = if i + 1 < src.len() { src[i + 1] << (64 - r) } else { 0 };
                out.push((src[i] >> r) | hi);
            }
        }
        let mut n = Nat { l: out };
        n.trim();
        n
    }
    pub fn cmp(&self, o: &Nat) -> Ordering {
        if self.l.len() != o.l.len() {
            return self.l.len().cmp(&o.l.len());
        }
        for i in (0..self.l.len()).rev() {
            if self.l[i] != o.l[i] {
                return self.l[i].cmp(&o.l[i]);
            }
        }
        Ordering::Equal
    }
    /// (self / v, self % v)
    pub fn divrem_small(&self, v: u64) -> (Nat, u64) {
        assert!(v != 0);
        let mut out = vec![0u64; self.l.len()];
        let mut rem = 0u128;
        for i in (0..self.l.len()).rev() {
            let cur = (rem << 64) | self.l[i] as u128;
            out[i] = (cur / v as u128) as u64;
            rem = cur % v as u128;
        }
        let mut n = Nat { l: out };
        n.trim();
        (n, rem as u64)
    }
    /// General division (Knuth's algorithm D).
    pub fn divrem(&self, d: &Nat) -> (Nat, Nat) {
        assert!(!d.is_zero());
        if self.cmp(d) == Ordering::Less {
            return (Nat::zero(), self.clone());
        }
        if d.l.len() == 1 {
            let (q, r) = self.divrem_small(d.l[0]);
            return (q, Nat::from_u64(r));
        }
        let s = d.l.last().unwrap().leading_zeros() as u64;
        let v = d.shl(s).l;
        let mut u = self.shl(s).l;
        let n = v.len();
        if u.len() == self.l.len() {
            u.push(0);
        }
        while u.len() < n + 1 {
            u.push(0);
        }
        let m = u.len() - n - 1;
        let mut q = vec![0u64; m + 1];
        const B: u128 = 1u128 << 64;
        for j in (0..=m).rev() {
            let num = ((u[j + n] as u128) << 64) | u[j + n - 1] as u128;
            let mut qhat = num / v[n - 1] as u128;
            let mut rhat = num % v[n - 1] as u128;
            while qhat >= B || qhat * v[n - 2] as u128 > ((rhat << 64) | u[j + n - 2] as u128) {
                qhat -= 1;
                rhat += v[n - 1] as u128;
                if rhat >= B {
                    break;
                }
            }
            // multiply and subtract
            let mut borrow: i128 = 0;
            let mut carry: u128 = 0;
            for i in 0..n {
                let p = qhat * v[i] as u128 + carry;
                carry = p >> 64;
                let t = u[i + j] as i128 - borrow - (p as u64) as i128;
                u[i + j] = t as u64;
                borrow = if t < 0 { 1 } else { 0 };
            }
            let t = u[j + n] as i128 - borrow - carry as i128;
            u[j + n] = t as u64;
            if t < 0 {
                qhat -= 1;
                let mut c = 0u128;
                for i in 0..n {
                    let s2 = u[i + j] as u128 + v[i] as u128 + c;
                    u[i + j] = s2 as u64;
                    c = s2 >> 64;
                }
                u[j + n] = u[j + n].wrapping_add(c as u64);
            }
            q[j] = qhat as u64;
        }
        let mut qn = Nat { l: q };
        qn.trim();
        u.truncate(n);
        let mut rn = Nat { l: u };
        rn.trim();
        (qn, rn.shr(s))
    }
    /// Slow reference division (binary long division), used to self-test `divrem`.
    pub fn divrem_slow(&self, d: &Nat) -> (Nat, Nat) {
        assert!(!d.is_zero());
        if self.cmp(d) == Ordering::Less {
            return (Nat::zero(), self.clone());
        }
        let shift = self.bits() - d.bits();
        let mut rem = self.clone();
        let mut q = Nat { l: vec![0u64; (shift / 64 + 1) as usize] };
        let mut dd = d.shl(shift);
        let mut i = shift as i64;
        while i >= 0 {
            if rem.cmp(&dd) != Ordering::Less {
                rem = rem.sub(&dd);
                q.l[(i / 64) as usize] |= 1u64 << (i % 64);
            }
            dd = dd.shr(1);
            i -= 1;
        }
        q.trim();
        (q, rem)
    }
    pub fn pow_small(base: u64, e: u32) -> Nat {
        let mut r = Nat::one();
        // multiply by the largest power of `base` that fits a limb at a time
        let mut chunk = base;
        let mut per = 1u32;
        while let Some(n) = chunk.checked_mul(base) {
            chunk = n;
            per += 1;
        }
        let mut e = e;
        while e >= per {
            r = r.mul_small(chunk);
            e -= per;
        }
        if e > 0 {
            r = r.mul_small(base.pow(e));
        }
        r
    }
    pub fn pow2(e: u64) -> Nat {
        Nat::one().shl(e)
    }

    /// Decimal digits (values 0..=9, most significant first, no leading zeros;
    /// empty for zero).
    pub fn to_digits(&self) -> Vec<u8> {
        if self.is_zero() {
            return Vec::new();
        }
        let mut chunks: Vec<u64> = Vec::new();
        let mut cur = self.l.clone();
        while !cur.is_empty() {
            let mut rem = 0u128;
            for i in (0..cur.len()).rev() {
                let c = (rem << 64) | cur[i] as u128;
                cur[i] = (c / CHUNK as u128) as u64;
                rem = c % CHUNK as u128;
            }
            while let Some(&0) = cur.last() {
                cur.pop();
            }
            chunks.push(rem as u64);
        }
        let mut out = Vec::with_capacity(chunks.len() * CHUNK_DIGITS);
        let mut first = true;
        for &c in chunks.iter().rev() {
            let mut buf = [0u8; CHUNK_DIGITS];
            let mut v = c;
            for j in (0..CHUNK_DIGITS).rev() {
                buf[j] = (v % 10) as u8;
                v /= 10;
            }
            if first {
                let skip = buf.iter().take_while(|&&d| d == 0).count();
                out.extend_from_slice(&buf[skip..]);
                first = false;
            } else {
                out.extend_from_slice(&buf);
            }
        }
        out
    }
    /// From decimal digit values (0..=9), most significant first.
    pub fn from_digits(d: &[u8]) -> Nat {
        let mut r = Nat::zero();
        let mut i = 0;
        while i < d.len() {
            let n = (d.len() - i).min(CHUNK_DIGITS);
            let mut v = 0u64;
            for &x in &d[i..i + n] {
                debug_assert!(x <= 9);
                v = v * 10 + x as u64;
            }
            r = r.mul_small(10u64.pow(n as u32)).add_small(v);
            i += n;
        }
        r
    }
    pub fn to_string(&self) -> String {
        if self.is_zero() {
            return "0".into();
        }
        self.to_digits().iter().map(|d| (b'0' + d) as char).collect()
    }
    /// Top 64 bits, left-aligned (bit 63 set), plus "any lower bit set".
    pub fn hi64(&self) -> (u64, bool) {
        if self.is_zero() {
            return (0, false);
        }
        let b = self.bits();
        if b <= 64 {
            (self.l[0] << (64 - b), false)
        } else {
            let top = self.shr(b - 64);
            (top.l[0], self.low_bits_nonzero(b - 64))
        }
    }
}

/// Cached powers of five, 5^0 ..= 5^N.
pub struct Pow5 {
    t: Vec<Nat>,
}
impl Pow5 {
    pub fn new(n: usize) -> Pow5 {
        let mut t = Vec::with_capacity(n + 1);
        t.push(Nat::one());
        for i in 0..n {
            let next = t[i].mul_small(5);
            t.push(next);
        }
        Pow5 { t }
    }
    pub fn get(&self, k: usize) -> &Nat {
        &self.t[k]
    }
}

pub fn pow5() -> &'static Pow5 {
    use std::sync::OnceLock;
    static P: OnceLock<Pow5> = OnceLock::new();
    P.get_or_init(|| Pow5::new(1200))
}

/// Self-test (exit code 2 on failure: "harness broken", never a violation).
pub fn self_test(seed: u64) -> Result<u64, String> {
    let mut s = seed ^ 0x9e37_79b9_7f4a_7c15;
    let mut next = move || {
        s = s.wrapping_add(0x9e37_79b9_7f4a_7c15);
        let mut z = s;
        z = (z ^ (z >> 30)).wrapping_mul(0xbf58_476d_1ce4_e5b9);
        z = (z ^ (z >> 27)).wrapping_mul(0x94d0_49bb_1331_11eb);
        z ^ (z >> 31)
    };
    let mut n = 0u64;
    for _ in 0..2000 {
        let (a, b) = (next() >> (next() % 64), next() >> (next() % 64));
        let (na, nb) = (Nat::from_u64(a), Nat::from_u64(b));
        if na.mul(&nb).to_u128() != Some(a as u128 * b as u128) {
            return Err(format!("mul {a} {b}"));
        }
        if na.add(&nb).to_u128() != Some(a as u128 + b as u128) {
            return Err(format!("add {a} {b}"));
        }
        if a >= b && na.sub(&nb).to_u64() != Some(a - b) {
            return Err(format!("sub {a} {b}"));
        }
        n += 3;
    }
    for _ in 0..300 {
        let la = (next() % 40) as usize + 1;
        let lb = (next() % 40) as usize + 1;
        let a = Nat::from_limbs(&(0..la).map(|_| next()).collect::<Vec<_>>());
        let b = Nat::from_limbs(&(0..lb).map(|_| next() | 1).collect::<Vec<_>>());
        let p = a.mul(&b);
        if p != b.mul(&a) {
            return Err("mul commut".into());
        }
        let (q, r) = p.divrem(&b);
        if q != a || !r.is_zero() {
            return Err("(a*b)/b".into());
        }
        {
            let extra = Nat::from_u64(next() >> (next() % 64));
            let n2 = p.add(&extra);
            let (q1, r1) = n2.divrem(&b);
            let (q2, r2) = n2.divrem_slow(&b);
            if q1 != q2 || r1 != r2 || q1.mul(&b).add(&r1) != n2 || r1.cmp(&b) != Ordering::Less {
                return Err("divrem vs slow".into());
            }
            // adversarial shapes for the qhat correction step
            let bb = Nat::from_limbs(&[next(), u64::MAX, 1u64 << 63]);
            let aa = Nat::from_limbs(&[next(), next(), u64::MAX, (1u64 << 63) - 1, next() % 7]);
            let (q1, r1) = aa.divrem(&bb);
            if (q1.clone(), r1.clone()) != aa.divrem_slow(&bb) {
                return Err("divrem adversarial".into());
            }
        }
        let sh = next() % 4000;
        if a.shl(sh).shr(sh) != a {
            return Err("shl/shr".into());
        }
        if a.shl(sh) != a.mul(&Nat::pow2(sh)) {
            return Err("shl vs mul".into());
        }
        if Nat::from_digits(&a.to_digits()) != a {
            return Err("decimal round trip".into());
        }
        let s = a.add(&b);
        if s.sub(&b) != a {
            return Err("add/sub".into());
        }
        // row-wise product via mul_small + shl must equal the column-wise product
        let mut acc = Nat::zero();
        for (i, &limb) in b.l.iter().enumerate() {
            acc = acc.add(&a.mul_small(limb).shl(64 * i as u64));
        }
        if acc != p {
            return Err("mul vs rows".into());
        }
        n += 7;
    }
    let mut p = Nat::one();
    for k in 0..=1200usize {
        if &p != pow5().get(k) || Nat::pow_small(5, k as u32) != p {
            return Err(format!("5^{k}"));
        }
        p = p.mul(&Nat::from_u64(5));
        n += 1;
    }
    if Nat::pow_small(10, 30).to_string() != format!("1{}", "0".repeat(30)) {
        return Err("10^30".into());
    }
    Ok(n)
}
