//! Glue for the libFuzzer targets: decode raw fuzzer bytes into structured
//! arguments (a `Recipe`, or parser inputs) so that the fuzzer reaches logic
//! rather than dying in validation; the semantic oracles live in the targets.

use crate::gen::Recipe;
use std::sync::Once;

/// Fixed layout: 8 x u16 selectors, u64 a, u64 b, 4 x u32 knobs (48 bytes),
/// then up to 48 digit bytes (value mod 10).  Missing bytes read as zero.
pub fn recipe_from_bytes(data: &[u8]) -> Recipe {
    let at = |i: usize| -> u8 { data.get(i).copied().unwrap_or(0) };
    let u16_at = |i: usize| -> u16 { u16::from_le_bytes([at(i), at(i + 1)]) };
    let u32_at = |i: usize| -> u32 { u32::from_le_bytes([at(i), at(i + 1), at(i + 2), at(i + 3)]) };
    let u64_at = |i: usize| -> u64 { (u32_at(i) as u64) | ((u32_at(i + 4) as u64) << 32) };
    let mut sel = [0u16; 8];
    for (j, s) in sel.iter_mut().enumerate() {
        *s = u16_at(2 * j);
    }
    let a = u64_at(16);
    let b = u64_at(24);
    let mut k = [0u32; 4];
    for (j, x) in k.iter_mut().enumerate() {
        *x = u32_at(32 + 4 * j);
    }
    let digits: Vec<u8> = data.iter().skip(48).take(48).map(|d| d % 10).collect();
    Recipe { sel, a, b, k, digits }
}

pub fn recipe_to_bytes(r: &Recipe) -> Vec<u8> {
    let mut out = Vec::with_capacity(96);
    for s in r.sel {
        out.extend(s.to_le_bytes());
    }
    out.extend(r.a.to_le_bytes());
    out.extend(r.b.to_le_bytes());
    for k in r.k {
        out.extend(k.to_le_bytes());
    }
    out.extend(r.digits.iter().map(|d| b'0' + d));
    out
}

/// libfuzzer-sys installs an aborting panic hook; replace it once with the
/// harness's quiet, location-recording hook so that catch_unwind works.
pub fn init() {
    static ONCE: Once = Once::new();
    ONCE.call_once(|| {
        crate::runner::install_quiet_panic_hook();
        // build the shared power table outside the timed region (the
        // closest-approach table is not used by the fuzz targets: building it
        // under the sanitizer's allocator takes longer than a quick campaign)
        let _ = crate::nat::pow5();
    });
}

static KNOWN: std::sync::OnceLock<Vec<crate::runner::Known>> = std::sync::OnceLock::new();

fn known() -> &'static Vec<crate::runner::Known> {
    KNOWN.get_or_init(|| {
        let dir = std::path::PathBuf::from(std::env::var("VERIF_DIR").unwrap_or_else(|_| "/verif".into()));
        crate::runner::load_known(&dir)
    })
}

/// Report a semantic violation found inside a fuzz target and crash, so that
/// libFuzzer saves the input as an artifact.  A failure whose signature is a
/// listed known finding (known_findings.txt, any of `props`) is tolerated so
/// that campaigns do not rediscover one crash forever.
pub fn report(f: &crate::runner::Failure, props: &[&str]) {
    if !f.key.is_empty() && known().iter().any(|k| k.key == f.key && props.contains(&k.property.as_str())) {
        return;
    }
    eprintln!("FUZZ-VIOLATION: {} [key {}]", f.message, f.key);
    std::process::abort();
}
