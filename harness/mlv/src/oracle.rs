//! The exact rounding oracle: a *validity predicate* ("is this float the one
//! nearest to the exact decimal value, ties to even?") decided by comparing the
//! input's digit string with the exact decimal expansions of the two rounding
//! boundaries next to the candidate.  It shares no algorithm, table or code
//! with minimal-lexical or with Rust's std parser.

use crate::nat::{pow5, Nat};
use std::cmp::Ordering;

pub use mlc::Fmt;

/// A positive decimal: value = 0.d1 d2 d3 ... * 10^point, with d1 != 0 and the
/// last digit != 0 (digit *values* 0..=9).  Zero is the empty digit string.
#[derive(Clone, Debug, PartialEq, Eq)]
pub struct Dec {
    pub digits: Vec<u8>,
    pub point: i64,
}

impl Dec {
    pub fn zero() -> Dec {
        Dec { digits: Vec::new(), point: 0 }
    }
    pub fn is_zero(&self) -> bool {
        self.digits.is_empty()
    }
    /// n * 10^e10
    pub fn from_nat(n: &Nat, e10: i64) -> Dec {
        let mut d = n.to_digits();
        if d.is_empty() {
            return Dec::zero();
        }
        let point = d.len() as i64 + e10;
        while let Some(&0) = d.last() {
            d.pop();
        }
        Dec { digits: d, point }
    }
    /// From ASCII integer/fraction digit bytes and an exponent (the parser's
    /// input convention).  Bytes must be ASCII digits.
    pub fn from_input(int: &[u8], frac: &[u8], exp: i64) -> Dec {
        let mut d: Vec<u8> = Vec::with_capacity(int.len() + frac.len());
        d.extend(int.iter().map(|c| c - b'0'));
        d.extend(frac.iter().map(|c| c - b'0'));
        let lz = d.iter().take_while(|&&x| x == 0).count();
        if lz == d.len() {
            return Dec::zero();
        }
        let point = int.len() as i64 + exp - lz as i64;
        d.drain(..lz);
        while let Some(&0) = d.last() {
            d.pop();
        }
        Dec { digits: d, point }
    }
    pub fn cmp(&self, o: &Dec) -> Ordering {
        match (self.is_zero(), o.is_zero()) {
            (true, true) => return Ordering::Equal,
            (true, false) => return Ordering::Less,
            (false, true) => return Ordering::Greater,
            _ => {}
        }
        if self.point != o.point {
            return self.point.cmp(&o.point);
        }
        let n = self.digits.len().min(o.digits.len());
        match self.digits[..n].cmp(&o.digits[..n]) {
            Ordering::Equal => self.digits.len().cmp(&o.digits.len()),
            ord => ord,
        }
    }
    /// Render as (integer-only ASCII digits, exponent): value = digits * 10^exp.
    pub fn to_int_exp(&self) -> (Vec<u8>, i64) {
        let s: Vec<u8> = self.digits.iter().map(|d| d + b'0').collect();
        (s, self.point - self.digits.len() as i64)
    }
    pub fn sig_len(&self) -> usize {
        self.digits.len()
    }
}

/// Compare the exact value of a parser input (ASCII digits, not copied) with a
/// `Dec`, streaming: O(length), no arithmetic on the input at all.
pub fn cmp_input(int: &[u8], frac: &[u8], exp: i64, m: &Dec) -> Ordering {
    let total = int.len() + frac.len();
    let at = |i: usize| -> u8 {
        if i < int.len() {
            int[i] - b'0'
        } else {
            frac[i - int.len()] - b'0'
        }
    };
    let mut lz = 0;
    while lz < total && at(lz) == 0 {
        lz += 1;
    }
    if lz == total {
        return if m.is_zero() { Ordering::Equal } else { Ordering::Less };
    }
    if m.is_zero() {
        return Ordering::Greater;
    }
    let point = int.len() as i64 + exp - lz as i64;
    if point != m.point {
        return point.cmp(&m.point);
    }
    let mut i = lz;
    let mut j = 0;
    while i < total && j < m.digits.len() {
        let a = at(i);
        let b = m.digits[j];
        if a != b {
            return a.cmp(&b);
        }
        i += 1;
        j += 1;
    }
    if j < m.digits.len() {
        // input exhausted, boundary has more (non-zero-terminated) digits
        return Ordering::Less;
    }
    while i < total {
        if at(i) != 0 {
            return Ordering::Greater;
        }
        i += 1;
    }
    Ordering::Equal
}

/// Exact decimal expansion of M * 2^e.
pub fn dec_of_scaled(m: &Nat, e: i64) -> Dec {
    if e >= 0 {
        Dec::from_nat(&m.shl(e as u64), 0)
    } else {
        let k = (-e) as usize;
        Dec::from_nat(&m.mul(pow5().get(k)), e)
    }
}

/// The rounding boundary just above the finite non-negative float `bits`:
/// (2M+1) * 2^(e-1).  For `MAX` this is the overflow threshold 2^emax+1 - 2^(emax-p).
pub fn hi(fmt: Fmt, bits: u64) -> Dec {
    debug_assert!(bits < fmt.inf_bits());
    let (m, e) = fmt.decode(bits);
    dec_of_scaled(&Nat::from_u128(2 * m as u128 + 1), e - 1)
}

/// Exact decimal expansion of a finite non-negative float.
pub fn exact(fmt: Fmt, bits: u64) -> Dec {
    let (m, e) = fmt.decode(bits);
    dec_of_scaled(&Nat::from_u64(m), e)
}

/// Where the value sits relative to the candidate's rounding interval.
#[derive(Clone, Copy, Debug, PartialEq, Eq)]
pub enum Verdict {
    Correct,
    NanOrNegative,
    /// the value is above the candidate's upper boundary (candidate too low)
    TooLow,
    /// the value is below the candidate's lower boundary (candidate too high)
    TooHigh,
    /// the value is exactly a boundary and the candidate is the odd neighbour
    WrongTie,
}

/// Is `bits` the correctly rounded (nearest, ties-to-even) value of the input?
pub fn judge(fmt: Fmt, bits: u64, int: &[u8], frac: &[u8], exp: i64) -> Verdict {
    judge_with(fmt, bits, |m| cmp_input(int, frac, exp, m))
}

pub fn judge_dec(fmt: Fmt, bits: u64, v: &Dec) -> Verdict {
    judge_with(fmt, bits, |m| v.cmp(m))
}

fn judge_with<C: Fn(&Dec) -> Ordering>(fmt: Fmt, bits: u64, cmp: C) -> Verdict {
    if bits & fmt.sign_bit() != 0 || bits > fmt.inf_bits() {
        return Verdict::NanOrNegative;
    }
    let even = bits & 1 == 0;
    if bits < fmt.inf_bits() {
        match cmp(&hi(fmt, bits)) {
            Ordering::Greater => return Verdict::TooLow,
            Ordering::Equal if !even => return Verdict::WrongTie,
            _ => {}
        }
    }
    if bits > 0 {
        match cmp(&hi(fmt, bits - 1)) {
            Ordering::Less => return Verdict::TooHigh,
            Ordering::Equal if !even => return Verdict::WrongTie,
            _ => {}
        }
    }
    Verdict::Correct
}

/// The correctly rounded float, found by binary search over bit patterns with
/// the boundary predicate (about 32/64 boundary expansions; used for replay
/// files, generator self-checks and the oracle self-test, not in hot loops).
pub fn expected_with<C: Fn(&Dec) -> Ordering>(fmt: Fmt, cmp: C) -> u64 {
    // result > x  <=>  v > hi(x), or v == hi(x) and x is odd
    let above = |x: u64| -> bool {
        match cmp(&hi(fmt, x)) {
            Ordering::Greater => true,
            Ordering::Equal => x & 1 == 1,
            Ordering::Less => false,
        }
    };
    let (mut lo, mut hi_) = (0u64, fmt.inf_bits()); // answer in [lo, hi_]
    while lo < hi_ {
        let mid = lo + (hi_ - lo) / 2;
        if above(mid) {
            lo = mid + 1;
        } else {
            hi_ = mid;
        }
    }
    lo
}

pub fn expected(fmt: Fmt, int: &[u8], frac: &[u8], exp: i64) -> u64 {
    expected_with(fmt, |m| cmp_input(int, frac, exp, m))
}

pub fn expected_dec(fmt: Fmt, v: &Dec) -> u64 {
    expected_with(fmt, |m| v.cmp(m))
}

/// Cheap expected value: candidate from std's parser on a short prefix (used
/// only to *propose*), confirmed by the predicate; falls back to binary search.
pub fn expected_fast(fmt: Fmt, int: &[u8], frac: &[u8], exp: i64) -> u64 {
    let d = Dec::from_input(int, frac, exp);
    if d.is_zero() {
        return 0;
    }
    let n = d.digits.len().min(25);
    let mut s = String::from("0.");
    for &x in &d.digits[..n] {
        s.push((b'0' + x) as char);
    }
    let p = d.point.clamp(-5000, 5000);
    s.push_str(&format!("e{}", p));
    let cand: u64 = match fmt {
        Fmt::F32 => s.parse::<f32>().map(|f| f.to_bits() as u64).unwrap_or(0),
        Fmt::F64 => s.parse::<f64>().map(|f| f.to_bits()).unwrap_or(0),
    };
    let top = fmt.inf_bits();
    for delta in [0i64, 1, -1, 2, -2] {
        let c = cand as i64 + delta;
        if c < 0 || c as u64 > top {
            continue;
        }
        if judge_dec(fmt, c as u64, &d) == Verdict::Correct {
            return c as u64;
        }
    }
    expected_dec(fmt, &d)
}

/// Distance class of a value from the nearest rounding boundary of its result,
/// used for non-triviality accounting: returns the number of leading
/// significant digits the value shares with the nearer of the two boundaries
/// (a value sharing >= 17 digits is within ~10^-17 relative of a boundary).
pub fn boundary_closeness(fmt: Fmt, bits: u64, v: &Dec) -> usize {
    let mut best = 0;
    let mut consider = |m: &Dec| {
        if m.point == v.point {
            let n = m.digits.iter().zip(v.digits.iter()).take_while(|(a, b)| a == b).count();
            let n = if n == m.digits.len().min(v.digits.len()) && m.digits.len() == v.digits.len() {
                usize::MAX / 2
            } else {
                n
            };
            best = best.max(n);
        }
    };
    if bits < fmt.inf_bits() {
        consider(&hi(fmt, bits));
    }
    if bits > 0 && bits <= fmt.inf_bits() {
        consider(&hi(fmt, bits - 1));
    }
    best
}
