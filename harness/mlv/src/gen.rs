//! Generator catalogue.  Every generated case is a pure function of a `Recipe`
//! (raw integers and a digit vector drawn by proptest), so shrinking the recipe
//! shrinks the case: selectors move toward the first class (monotone index
//! mapping), lengths toward zero, exponents toward zero.
//!
//! Generators *construct* valid inputs (integer part without leading zero,
//! fraction without trailing zero, ASCII digits) instead of filtering.

use crate::nat::{pow5, Nat};
use crate::oracle::{self, Dec, Fmt};
use proptest::prelude::*;

#[derive(Clone, Debug, PartialEq, Eq)]
pub struct Recipe {
    pub sel: [u16; 8],
    pub a: u64,
    pub b: u64,
    pub k: [u32; 4],
    pub digits: Vec<u8>,
}

pub fn recipe_strategy() -> impl Strategy<Value = Recipe> {
    (
        prop::array::uniform8(any::<u16>()),
        any::<u64>(),
        any::<u64>(),
        prop::array::uniform4(any::<u32>()),
        prop::collection::vec(0u8..10, 0..48),
    )
        .prop_map(|(sel, a, b, k, digits)| Recipe { sel, a, b, k, digits })
}

impl Recipe {
    pub fn to_json(&self) -> serde_json::Value {
        serde_json::json!({"sel": self.sel, "a": self.a, "b": self.b, "k": self.k, "digits": self.digits})
    }
    pub fn from_json(v: &serde_json::Value) -> Option<Recipe> {
        let arr = |x: &serde_json::Value| -> Option<Vec<u64>> {
            x.as_array()?.iter().map(|e| e.as_u64()).collect()
        };
        let sel = arr(&v["sel"])?;
        let k = arr(&v["k"])?;
        let digits = arr(&v["digits"])?;
        let mut r = Recipe { sel: [0; 8], a: v["a"].as_u64()?, b: v["b"].as_u64()?, k: [0; 4], digits: vec![] };
        for i in 0..8 {
            r.sel[i] = *sel.get(i)? as u16;
        }
        for i in 0..4 {
            r.k[i] = *k.get(i)? as u32;
        }
        r.digits = digits.iter().map(|&d| d as u8).collect();
        Some(r)
    }
}

/// Monotone index mapping: shrinking the selector moves toward class 0.
#[inline]
pub fn pick(sel: u16, n: usize) -> usize {
    ((sel as usize) * n) >> 16
}

/// Weighted monotone pick: `weights` are relative; returns the class index.
pub fn pick_w(sel: u16, weights: &[u32]) -> usize {
    let total: u64 = weights.iter().map(|&w| w as u64).sum();
    let x = (sel as u64 * total) >> 16;
    let mut acc = 0u64;
    for (i, &w) in weights.iter().enumerate() {
        acc += w as u64;
        if x < acc {
            return i;
        }
    }
    weights.len() - 1
}

/// splitmix64: a fixed, pure expansion of recipe values into more values (used
/// to stretch a 48-digit recipe into long digit strings; not a source of
/// randomness of its own).
#[inline]
pub fn mix(x: u64) -> u64 {
    let mut z = x.wrapping_add(0x9e37_79b9_7f4a_7c15);
    z = (z ^ (z >> 30)).wrapping_mul(0xbf58_476d_1ce4_e5b9);
    z = (z ^ (z >> 27)).wrapping_mul(0x94d0_49bb_1331_11eb);
    z ^ (z >> 31)
}

#[derive(Clone, Debug)]
pub struct Case {
    pub int: Vec<u8>,
    pub frac: Vec<u8>,
    pub exp: i32,
    pub family: &'static str,
    pub variant: &'static str,
    pub layout: &'static str,
    /// expectation known by construction (cross-checked against the oracle)
    pub expect: Option<u64>,
}

impl Case {
    pub fn sig_len(&self) -> usize {
        self.int.len() + self.frac.len()
    }
    pub fn fingerprint(&self) -> u64 {
        let mut h = 0xcbf2_9ce4_8422_2325u64;
        let mut eat = |b: u8| {
            h ^= b as u64;
            h = h.wrapping_mul(0x1000_0000_01b3);
        };
        for &b in &self.int {
            eat(b);
        }
        eat(b'.');
        for &b in &self.frac {
            eat(b);
        }
        eat(b'e');
        for b in self.exp.to_le_bytes() {
            eat(b);
        }
        mix(h)
    }
    pub fn describe(&self) -> serde_json::Value {
        serde_json::json!({
            "integer": abbreviate(&self.int),
            "fraction": abbreviate(&self.frac),
            "exponent": self.exp,
            "family": self.family, "variant": self.variant, "layout": self.layout,
            "significant_digits": self.sig_len(),
        })
    }
    pub fn full_json(&self) -> serde_json::Value {
        serde_json::json!({
            "integer": String::from_utf8_lossy(&self.int),
            "fraction": String::from_utf8_lossy(&self.frac),
            "exponent": self.exp,
            "family": self.family, "variant": self.variant, "layout": self.layout,
        })
    }
}

pub fn abbreviate(d: &[u8]) -> String {
    let s = String::from_utf8_lossy(d);
    if d.len() <= 64 {
        s.into_owned()
    } else {
        format!("{}...({} digits)...{}", &s[..24], d.len(), &s[d.len() - 24..])
    }
}

/// Tier-dependent size limits.
#[derive(Clone, Copy, Debug)]
pub struct Limits {
    /// largest digit-string length generated routinely
    pub long: usize,
    /// largest length generated at all (rare classes)
    pub huge: usize,
}

pub const QUICK: Limits = Limits { long: 2_000, huge: 20_000 };
pub const THOROUGH: Limits = Limits { long: 10_000, huge: 1_000_000 };

// ---------------------------------------------------------------------------
// float classes

pub const FLOAT_CLASSES: [&str; 10] = [
    "uniform-bits",
    "subnormal",
    "special-mantissa",
    "special-exponent",
    "integer",
    "power-of-ten",
    "near-power-of-two",
    "extreme",
    "small-decimal",
    "product-seam",
];

fn round_u64_to_bits(fmt: Fmt, v: u64) -> u64 {
    match fmt {
        Fmt::F32 => (v as f32).to_bits() as u64,
        Fmt::F64 => (v as f64).to_bits(),
    }
}

/// A finite non-negative float (bit pattern < +inf) from a class mixture.
pub fn float_of(fmt: Fmt, sel: u16, a: u64, b: u64) -> (u64, &'static str) {
    let inf = fmt.inf_bits();
    let mb = fmt.mbits();
    let mmask = (1u64 << mb) - 1;
    let emax = (1u64 << fmt.ebits()) - 2; // largest finite biased exponent
    let c = pick_w(sel, &[29, 8, 10, 10, 10, 8, 8, 8, 7, 2]);
    let bits = match c {
        0 => a % inf,
        1 => {
            if b % 3 == 0 {
                subnormal_by_bitlen(fmt, a, b / 3)
            } else {
                a & mmask
            }
        }
        2 => {
            let j = ((b / 9) % mb as u64) as u32; // 0..mbits-1
            let m = match b % 9 {
                0 => 0,
                1 => 1,
                2 => 2,
                3 => mmask,
                4 => mmask - 1,
                5 => 1u64 << (mb - 1),
                // fraction fields 2^j - 1 (low j bits set), 2^j, and all ones above bit j
                6 => (1u64 << j) - 1 + (j == 0) as u64,
                7 => 1u64 << j,
                _ => mmask & !((1u64 << j) - 1),
            };
            ((a % (emax + 1)) << mb) | m
        }
        3 => {
            let e = match b % 7 {
                0 => 0,
                1 => 1,
                2 => 2,
                3 => emax - 2,
                4 => emax - 1,
                5 => emax,
                _ => fmt.bias() as u64,
            };
            (e << mb) | (a & mmask)
        }
        4 => round_u64_to_bits(fmt, a >> (b % 64)),
        5 => {
            // 10^k (as parsed by std: only a *starting point*; any float is fine)
            let span: i64 = match fmt {
                Fmt::F32 => 84,
                Fmt::F64 => 632,
            };
            let k = (a % span as u64) as i64 - match fmt {
                Fmt::F32 => 45,
                Fmt::F64 => 323,
            };
            let s = format!("1e{}", k);
            let base = match fmt {
                Fmt::F32 => s.parse::<f32>().unwrap().to_bits() as u64,
                Fmt::F64 => s.parse::<f64>().unwrap().to_bits(),
            };
            let d = (b % 5) as i64 - 2;
            (base as i64 + d).clamp(0, inf as i64 - 1) as u64
        }
        6 => {
            let e = a % (emax + 1);
            let base = (e << mb) as i64;
            let d = (b % 9) as i64 - 4;
            (base + d).clamp(0, inf as i64 - 1) as u64
        }
        7 => match a % 45 {
            0 => 0,
            1 => 1,
            2 => 2,
            3 => mmask,
            4 => mmask + 1,
            5 => mmask + 2,
            6 => inf - 1,
            7 => inf - 2,
            8 => inf - 3,
            9 => 3,
            k => edge_float(fmt, k - 10),
        },
        9 => {
            // floats whose short decimal form w * 10^q sits at a product seam of the disguised fast path
            // (w * 10^(q - max_fast) next to 2^24 / 2^53 / 2^63 / 2^64)
            let (max_fast, max_s, mant_limit): (i64, u32, u128) = match fmt {
                Fmt::F32 => (10, 7, 1u128 << 24),
                Fmt::F64 => (22, 15, 1u128 << 53),
            };
            let s = 1 + ((a >> 8) % (max_s as u64 + 2)) as u32;
            let targets: [u128; 5] = [mant_limit, mant_limit * 2, 1u128 << 63, 1u128 << 64, (1u128 << 64) + mant_limit];
            let t = targets[(a % 5) as usize];
            let w = ((t / 10u128.pow(s.min(19))) as i128 + (b % 9) as i128 - 4).max(1);
            let txt = format!("{}e{}", w, max_fast + s as i64);
            match fmt {
                Fmt::F32 => txt.parse::<f32>().unwrap().to_bits() as u64,
                Fmt::F64 => txt.parse::<f64>().unwrap().to_bits(),
            }
        }
        _ => {
            // floats nearest to short decimals d.ddd (1..6 digits) * 10^k, |k| small
            let digs = 1 + (b % 6) as u32;
            let m = a % 10u64.pow(digs);
            let k = ((a >> 32) % 41) as i64 - 20;
            let s = format!("{}e{}", m, k);
            match fmt {
                Fmt::F32 => s.parse::<f32>().unwrap().to_bits() as u64,
                Fmt::F64 => s.parse::<f64>().unwrap().to_bits(),
            }
        }
    };
    (bits.min(inf - 1), FLOAT_CLASSES[c])
}

/// Subnormals by *bit length*: `a & mmask` makes almost every subnormal significand full-width, so the interior
/// powers of two of the subnormal range (where rounding carries into a new bit, far from both the smallest
/// subnormal and the smallest normal) would never be met.  Bit length j uniform in 1..=mbits; significand
/// 2^j - 1, 2^(j-1), 2^(j-1) + 1, 2^j - 2 or a random j-bit value.
pub fn subnormal_by_bitlen(fmt: Fmt, a: u64, b: u64) -> u64 {
    let mb = fmt.mbits() as u64;
    let j = 1 + b % mb;
    let top = 1u64 << (j - 1);
    let ones = (top << 1) - 1;
    let v = match (b / mb) % 6 {
        0 => ones,
        1 => top,
        2 => top + 1,
        3 => ones - 1,
        4 => ones.saturating_sub(a % 4),
        _ => top | (a & (top - 1)),
    };
    v.clamp(1, (1u64 << mb) - 1)
}

/// Cross product of edge exponents x edge mantissas (35 patterns): biased exponent in
/// {0,1,2,3,emax-2,emax-1,emax} x fraction in {0,1,2,all-ones-1,all-ones}.
pub fn edge_float(fmt: Fmt, k: u64) -> u64 {
    let mb = fmt.mbits();
    let mmask = (1u64 << mb) - 1;
    let emax = (1u64 << fmt.ebits()) - 2;
    let e = [0, 1, 2, 3, emax - 2, emax - 1, emax][(k % 7) as usize];
    let m = [0, 1, 2, mmask - 1, mmask][((k / 7) % 5) as usize];
    ((e << mb) | m).min(fmt.inf_bits() - 1)
}

// ---------------------------------------------------------------------------
// digit helpers

fn ascii(d: &[u8]) -> Vec<u8> {
    d.iter().map(|x| x + b'0').collect()
}

/// `n` digit values derived from the recipe: the recipe's own digits first,
/// then a deterministic expansion.
fn stretch_digits(r: &Recipe, n: usize, salt: u64) -> Vec<u8> {
    let mut out = Vec::with_capacity(n);
    out.extend(r.digits.iter().take(n).copied());
    let mut s = r.a ^ salt;
    let mode = (r.k[2] % 8) as u8;
    while out.len() < n {
        s = mix(s);
        let mut v = s;
        for _ in 0..16 {
            if out.len() >= n {
                break;
            }
            let d = match mode {
                0..=4 => (v % 10) as u8,
                5 => {
                    if v % 7 == 0 {
                        (v / 7 % 10) as u8
                    } else {
                        0
                    }
                }
                6 => {
                    if v % 7 == 0 {
                        (v / 7 % 10) as u8
                    } else {
                        9
                    }
                }
                _ => [0, 9, 9, 0, 5, 1, 8, 0, 0, 9][(v % 10) as usize],
            };
            out.push(d);
            v /= 10;
        }
    }
    out
}

pub const LAYOUTS: [&str; 5] = ["integer-only", "fraction-only", "split", "natural", "fraction-leading-zeros"];

/// Lay out a decimal (digit values, first and last non-zero unless
/// `allow_trailing`) as (integer, fraction, exponent).  value = 0.D * 10^point.
pub fn layout(d: &[u8], point: i64, sel: u16, knob: u32, allow_trailing: bool) -> (Vec<u8>, Vec<u8>, i32, &'static str) {
    let len = d.len() as i64;
    let clamp = |e: i64| e.clamp(i32::MIN as i64, i32::MAX as i64) as i32;
    if d.is_empty() {
        return (vec![], vec![], clamp(point), LAYOUTS[0]);
    }
    let trailing_zero = *d.last().unwrap() == 0;
    let mut c = pick_w(sel, &[30, 20, 25, 15, 10]);
    if trailing_zero && !allow_trailing {
        debug_assert!(false, "trailing zero in a digit string that does not allow it");
        c = 0;
    }
    // with `allow_trailing` the zeros may end up at the end of the fraction as well: parse_float tolerates
    // them (tests/parse_tests.rs, issue #20) and the properties quantify over all digit strings
    match c {
        0 => (ascii(d), vec![], clamp(point - len), LAYOUTS[0]),
        1 => (vec![], ascii(d), clamp(point), LAYOUTS[1]),
        2 => {
            // split after 1..len-1 digits (or integer-only for a single digit)
            if len < 2 {
                return (ascii(d), vec![], clamp(point - len), LAYOUTS[0]);
            }
            let k = 1 + (knob as i64 % (len - 1));
            (ascii(&d[..k as usize]), ascii(&d[k as usize..]), clamp(point - k), LAYOUTS[2])
        }
        3 => {
            // natural position of the decimal point, exponent 0, if not absurd
            if point <= 0 && -point <= 400 {
                let mut f = vec![b'0'; (-point) as usize];
                f.extend(ascii(d));
                (vec![], f, 0, LAYOUTS[3])
            } else if point > 0 && point < len {
                (ascii(&d[..point as usize]), ascii(&d[point as usize..]), 0, LAYOUTS[3])
            } else if point >= len && point - len <= 400 {
                let mut i = ascii(d);
                i.extend(std::iter::repeat(b'0').take((point - len) as usize));
                (i, vec![], 0, LAYOUTS[3])
            } else {
                (ascii(d), vec![], clamp(point - len), LAYOUTS[0])
            }
        }
        _ => {
            let z = match knob % 4 {
                0 => (knob >> 2) % 6,
                1 => 15 + (knob >> 2) % 10,
                2 => 300 + (knob >> 2) % 200,
                _ => (knob >> 2) % 1200,
            } as i64;
            let mut f = vec![b'0'; z as usize];
            f.extend(ascii(d));
            (vec![], f, clamp(point + z), LAYOUTS[4])
        }
    }
}

/// Restore the trailing zeros of an integer-valued boundary (the `Dec` form
/// strips them), so that digits appended afterwards are fractional.
fn pad_to_point(d: &mut Vec<u8>, point: i64) {
    while (d.len() as i64) < point && d.len() < 400 {
        d.push(0);
    }
}

fn tie_even(x: u64) -> u64 {
    if x & 1 == 0 {
        x
    } else {
        x + 1
    }
}

/// How many digits make a last-place perturbation provably smaller than half
/// an ulp (so the by-construction expectation is safe).
fn safe_len(fmt: Fmt) -> usize {
    match fmt {
        Fmt::F32 => 11,
        Fmt::F64 => 20,
    }
}

fn tail_len(sel: u16, knob: u32, lim: Limits) -> usize {
    let c = pick_w(sel, &[40, 15, 15, 15, 10, 5]);
    let k = knob as usize;
    match c {
        0 => k % 61,
        1 => 90 + k % 40,
        2 => 700 + k % 101,
        3 => 1000 + k % 101,
        4 => lim.long / 2 + k % (lim.long / 2 + 1),
        _ => {
            // rare huge tails: a power of ten between long and huge
            let mut n = lim.long;
            let steps = k % 4;
            for _ in 0..steps {
                if n * 10 <= lim.huge {
                    n *= 10;
                }
            }
            n.min(lim.huge)
        }
    }
}

fn cut_pos(fmt: Fmt, sel: u16, knob: u32, len: usize) -> usize {
    let k = knob as usize;
    let c = pick_w(sel, &[25, 10, 15, 15, 20, 15]);
    let pos = match c {
        0 => 15 + k % 8,
        1 => 36 + k % 5,
        2 => match fmt {
            Fmt::F32 => 110 + k % 7,
            Fmt::F64 => 765 + k % 7,
        },
        3 => 110 + k % 7,
        4 => {
            let j = 1 + (k / 3) % 41;
            19 * j + (k % 3) - 1
        }
        _ => 1 + k % len.max(1),
    };
    pos.clamp(1, len.max(1))
}

pub const MIDPOINT_VARIANTS: [&str; 9] = [
    "tie-exact",
    "tie-cut",
    "tie-last+1",
    "tie-last-1",
    "tie+zeros+digit",
    "tie-1ulp+nines",
    "tie+zeros",
    "exact-float",
    "exact-float-perturbed",
];

/// G-B / G-G: inputs built around the rounding boundary above float `x`.
pub fn midpoint_case(fmt: Fmt, r: &Recipe, lim: Limits, family: &'static str, x: u64, weights: &[u32; 9]) -> Case {
    let h = oracle::hi(fmt, x);
    let l = h.digits.len();
    let v = pick_w(r.sel[2], weights);
    let safe = l >= safe_len(fmt);
    let mut allow_trailing = false;
    let mut d = h.digits.clone();
    let mut point = h.point;
    let mut expect: Option<u64>;
    match v {
        0 => expect = Some(tie_even(x)),
        1 => {
            let k = cut_pos(fmt, r.sel[3], r.k[0], l);
            if k >= l {
                expect = Some(tie_even(x));
            } else {
                d.truncate(k);
                while let Some(&0) = d.last() {
                    d.pop();
                }
                expect = if k >= safe_len(fmt) { Some(x) } else { None };
                if r.k[1] % 2 == 0 && !d.is_empty() {
                    // ... then zeros up to (or just around) the digit limit of the slow path and one more digit:
                    // the kept prefix ends in a run of zeros exactly where the last partial chunk is flushed
                    let limit: usize = match fmt {
                        Fmt::F32 => 114,
                        Fmt::F64 => 769,
                    };
                    let z = match (r.k[1] / 2) % 3 {
                        0 => limit.saturating_sub(d.len()),
                        1 => (r.k[2] % 40) as usize,
                        _ => (limit + (r.k[2] % 3) as usize).saturating_sub(d.len() + 1),
                    };
                    pad_to_point(&mut d, point);
                    d.extend(std::iter::repeat(0).take(z.min(lim.long + 800)));
                    d.push(1 + (r.k[3] % 9) as u8);
                    expect = None;
                }
            }
        }
        2 => {
            if *d.last().unwrap() == 9 {
                d.push(1);
            } else {
                *d.last_mut().unwrap() += 1;
            }
            expect = if safe { Some(x + 1) } else { None };
        }
        3 => {
            *d.last_mut().unwrap() -= 1;
            if *d.last().unwrap() == 0 {
                // keep the value: trailing zero is dropped
                while let Some(&0) = d.last() {
                    d.pop();
                }
            }
            expect = if safe { Some(x) } else { None };
            if d.is_empty() {
                // H was a single digit 1 -> value 0
                point = 0;
            }
        }
        4 => {
            let n = tail_len(r.sel[3], r.k[0], lim);
            pad_to_point(&mut d, point);
            d.extend(std::iter::repeat(0).take(n));
            d.push(1 + (r.k[1] % 9) as u8);
            expect = Some(x + 1);
        }
        5 => {
            let n = tail_len(r.sel[3], r.k[0], lim);
            *d.last_mut().unwrap() -= 1;
            let limit: usize = match fmt {
                Fmt::F32 => 114,
                Fmt::F64 => 769,
            };
            if r.k[1] % 3 == 0 && d.len() + 1 < limit {
                // the run of nines ends at (or next to) the digit limit of the slow path, then one to three zeros
                // and a non-zero digit: the first dropped digit is '0' although the dropped tail is not zero
                let target = limit - 1 + (r.k[2] % 3) as usize;
                let fill = target - d.len();
                d.extend(std::iter::repeat(9).take(fill));
                d.extend(std::iter::repeat(0).take(1 + ((r.k[2] / 3) % 3) as usize));
                d.push(1 + (r.k[3] % 9) as u8);
            } else {
                d.extend(std::iter::repeat(9).take(n));
            }
            while let Some(&0) = d.last() {
                d.pop();
            }
            expect = if safe { Some(x) } else { None };
            if d.is_empty() {
                point = 0;
            }
        }
        6 => {
            let n = tail_len(r.sel[3], r.k[0], lim);
            pad_to_point(&mut d, point);
            d.extend(std::iter::repeat(0).take(n));
            allow_trailing = true;
            expect = Some(tie_even(x));
        }
        7 => {
            let e = oracle::exact(fmt, x);
            d = e.digits;
            point = e.point;
            expect = Some(x);
        }
        _ => {
            let e = oracle::exact(fmt, x);
            d = e.digits;
            point = e.point;
            if d.is_empty() {
                expect = Some(0);
            } else {
                let long_enough = d.len() >= safe_len(fmt);
                match r.k[1] % 3 {
                    0 => {
                        if *d.last().unwrap() == 9 {
                            d.push(1);
                        } else {
                            *d.last_mut().unwrap() += 1;
                        }
                    }
                    1 => {
                        *d.last_mut().unwrap() -= 1;
                        while let Some(&0) = d.last() {
                            d.pop();
                        }
                    }
                    _ => {
                        let n = tail_len(r.sel[3], r.k[0], lim);
                        d.extend(stretch_digits(r, n, 0x51));
                        d.push(1 + (r.k[0] % 9) as u8);
                    }
                }
                expect = if long_enough && !d.is_empty() { Some(x) } else { None };
                if d.is_empty() {
                    point = 0;
                }
            }
        }
    }
    // "H - 1" may have produced leading zeros (H = 1000 -> 0999...)
    let lz = d.iter().take_while(|&&c| c == 0).count();
    if lz > 0 {
        d.drain(..lz);
        point -= lz as i64;
    }
    let (int, frac, exp, lay) = layout(&d, point, r.sel[4], r.k[3], allow_trailing);
    Case { int, frac, exp, family, variant: MIDPOINT_VARIANTS[v], layout: lay, expect }
}

pub const DEFAULT_MID_WEIGHTS: [u32; 9] = [14, 14, 10, 10, 14, 14, 8, 8, 8];

pub fn g_b(fmt: Fmt, r: &Recipe, lim: Limits) -> Case {
    let (x, _cls) = float_of(fmt, r.sel[1], r.a, r.b);
    midpoint_case(fmt, r, lim, "G-B midpoint", x, &DEFAULT_MID_WEIGHTS)
}

// ---------------------------------------------------------------------------
// G-A shaped random decimals

fn len_class(sel: u16, knob: u32, lim: Limits) -> usize {
    let k = knob as usize;
    match pick_w(sel, &[12, 14, 14, 10, 10, 10, 10, 10, 6, 4]) {
        0 => 0,
        1 => 1 + k % 3,
        2 => 4 + k % 13,
        3 => 17 + k % 5,
        4 => 22 + k % 20,
        5 => 110 + k % 9,
        6 => 300 + k % 31,
        7 => 760 + k % 16,
        8 => 1000 + k % (lim.long.max(1001) - 1000 + 1),
        _ => {
            let mut n = lim.long;
            for _ in 0..(k % 3) {
                if n * 10 <= lim.huge {
                    n *= 10;
                }
            }
            n
        }
    }
}

pub fn exponent_of(fmt: Fmt, sel: u16, knob: u64, li: usize, lf: usize) -> (i32, &'static str) {
    let len = (li + lf) as i64;
    let k = knob;
    let c = pick_w(sel, &[25, 25, 15, 15, 10, 10]);
    let (lo10, hi10) = match fmt {
        Fmt::F32 => (-46i64, 39i64),
        Fmt::F64 => (-324i64, 309i64),
    };
    let e: i64 = match c {
        0 => (k % 61) as i64 - 30,
        1 => {
            // lands the decimal magnitude inside (or just outside) the finite range
            let mag = lo10 - 3 + (k % (hi10 - lo10 + 7) as u64) as i64;
            mag - li as i64
        }
        2 => {
            let edges: [i64; 16] = [lo10, lo10 - 1, lo10 + 1, hi10, hi10 - 1, hi10 + 1, -342, -343, 308, 309, -65, -66, 38, 39, -27, 55];
            edges[(k % 16) as usize] - li as i64 + ((k >> 8) % 3) as i64 - 1
        }
        3 => -(li as i64) + ((k % 41) as i64 - 20),
        4 => {
            let ex: [i64; 12] = [
                i32::MIN as i64,
                i32::MIN as i64 + 1,
                i32::MIN as i64 + len,
                -1_000_000_000,
                -1_000_000,
                -0x1000,
                0x1000,
                1_000_000,
                1_000_000_000,
                i32::MAX as i64 - len,
                i32::MAX as i64 - 1,
                i32::MAX as i64,
            ];
            ex[(k % 12) as usize]
        }
        _ => (k % 801) as i64 - 400,
    };
    const NAMES: [&str; 6] = ["small", "in-range", "range-edge", "compensating", "i32-extreme", "wide"];
    (e.clamp(i32::MIN as i64, i32::MAX as i64) as i32, NAMES[c])
}

pub fn g_a(fmt: Fmt, r: &Recipe, lim: Limits) -> Case {
    let mut li = len_class(r.sel[2], r.k[0], lim);
    let mut lf = len_class(r.sel[3], r.k[1], lim);
    if li + lf > lim.huge {
        if li > lf {
            lf = 0;
        } else {
            li = 0;
        }
    }
    let all = stretch_digits(r, li + lf, 0xa);
    let mut int = ascii(&all[..li]);
    let mut frac = ascii(&all[li..]);
    if let Some(f) = int.first_mut() {
        if *f == b'0' {
            *f = b'1' + (r.k[3] % 9) as u8;
        }
    }
    if let Some(l) = frac.last_mut() {
        if *l == b'0' {
            *l = b'1' + (r.k[3] % 9) as u8;
        }
    }
    let (exp, ecls) = exponent_of(fmt, r.sel[5], r.b, li, lf);
    Case { int, frac, exp, family: "G-A shaped-random", variant: ecls, layout: "as-generated", expect: None }
}

// ---------------------------------------------------------------------------
// G-D short exact ties: (2M+1) * 2^j written as w * 10^q with w < 2^64

pub fn g_d(fmt: Fmt, r: &Recipe) -> Case {
    let p = fmt.mbits() as u64 + 1; // precision
    let (qmin, qmax) = match fmt {
        Fmt::F32 => (-18i64, 11i64),
        Fmt::F64 => (-5i64, 24i64),
    };
    // one past the documented window on each side, on purpose
    let q = qmin + (pick(r.sel[2], (qmax - qmin + 1) as usize) as i64);
    // odd numerator o = 2M+1 with M a p-bit (normal) or shorter (then the tie is
    // between floats with fewer significant bits, still a tie for normal floats)
    let m_bits = if r.k[0] % 4 == 0 { 1 + (r.k[1] as u64 % p) } else { p };
    let m = if m_bits >= 64 { r.a } else { (r.a & ((1u64 << m_bits) - 1)) | (1u64 << (m_bits - 1)) };
    let mut o = Nat::from_u128(2 * m as u128 + 1);
    let w: Nat;
    if q < 0 {
        let k = (-q) as usize;
        w = o.mul(pow5().get(k));
    } else {
        // need 5^q | o: replace o by t*5^q with t odd, same size class if possible
        let f = pow5().get(q as usize);
        let (mut t, _) = o.divrem(f);
        if t.is_zero() {
            t = Nat::one();
        }
        if !t.is_odd() {
            t = t.add_small(1);
        }
        o = t.mul(f);
        let _ = &o;
        w = t;
    }
    // multiply by 2^j while it fits in 64 bits
    let room = 64u64.saturating_sub(w.bits());
    let j = if room == 0 { 0 } else { r.b % (room + 1) };
    let w = w.shl(j);
    let (digits, q) = match w.to_u64() {
        Some(v) if v != 0 => (v.to_string().into_bytes(), q),
        _ => {
            // does not fit: emit anyway as a (longer) exact tie
            (w.to_string().into_bytes(), q)
        }
    };
    let dvals: Vec<u8> = digits.iter().map(|c| c - b'0').collect();
    let mut d = dvals.clone();
    let tz = d.iter().rev().take_while(|&&x| x == 0).count();
    d.truncate(d.len() - tz);
    let point = dvals.len() as i64 + q;
    // keep the (w, q) form most of the time: that is what the tie window governs
    if r.sel[4] < 0xC000 {
        Case {
            int: digits,
            frac: vec![],
            exp: q as i32,
            family: "G-D short-tie",
            variant: if q < 0 { "q<0" } else { "q>=0" },
            layout: "integer-only",
            expect: None,
        }
    } else if r.k[2] % 3 == 0 && !d.is_empty() {
        // the same tie followed by zeros (value unchanged), up to and across the digit limit of the slow path:
        // the "were non-zero digits cut off" scan then has only zeros to look at
        let limit: usize = match fmt {
            Fmt::F32 => 114,
            Fmt::F64 => 769,
        };
        let z = match (r.k[2] / 3) % 4 {
            0 => 1 + (r.k[1] as usize) % 60,
            1 => (limit + (r.k[1] as usize) % 7).saturating_sub(d.len() + 3),
            2 => limit + (r.k[1] as usize) % 300,
            _ => (r.k[1] as usize) % (2 * limit),
        };
        let mut dz = d.clone();
        while (dz.len() as i64) < point && dz.len() < 400 {
            dz.push(0);
        }
        dz.extend(std::iter::repeat(0).take(z));
        let (int, frac, exp, lay) = layout(&dz, point, r.sel[5], r.k[3], true);
        Case { int, frac, exp, family: "G-D short-tie", variant: "tie+zeros across the digit limit", layout: lay, expect: None }
    } else {
        let (int, frac, exp, lay) = layout(&d, point, r.sel[5], r.k[3], false);
        Case { int, frac, exp, family: "G-D short-tie", variant: if q < 0 { "q<0" } else { "q>=0" }, layout: lay, expect: None }
    }
}

// ---------------------------------------------------------------------------
// G-E algorithm seams

/// Product seams of the disguised fast path: w * 10^s right at 2^mantissa_bits+1, 2^63, 2^64 (the
/// checked multiplication and the `<= MAX_MANTISSA_FAST_PATH` test), with q = max_exponent_fast + s.
pub fn g_e_product(fmt: Fmt, r: &Recipe) -> Case {
    let (max_fast, max_s, mant_limit): (i64, u32, u128) = match fmt {
        Fmt::F32 => (10, 7, 1u128 << 24),
        Fmt::F64 => (22, 15, 1u128 << 53),
    };
    let s = 1 + (r.k[0] % (max_s + 2)); // one or two past the disguised limit as well
    let targets: [u128; 6] = [mant_limit, mant_limit * 2, 1u128 << 63, 1u128 << 64, (1u128 << 64) + mant_limit, 1u128 << 32];
    let t = targets[(r.k[1] % 6) as usize];
    let p = 10u128.pow(s.min(19));
    let base = t / p;
    let delta = (r.k[2] % 9) as i128 - 4;
    let w = (base as i128 + delta).max(1) as u128;
    let w = w.min(u64::MAX as u128) as u64;
    let q = max_fast + s as i64;
    Case { int: w.to_string().into_bytes(), frac: vec![], exp: q as i32, family: "G-E seam", variant: "w*10^s at a product seam", layout: "integer-only", expect: None }
}

pub fn g_e(fmt: Fmt, r: &Recipe) -> Case {
    if r.sel[6] >= 0xC000 {
        return g_e_product(fmt, r);
    }
    let specials_w: [u64; 14] = [
        1 << 24,
        1 << 53,
        u64::MAX,
        9_999_999_999_999_999_999,
        10_000_000_000_000_000_000,
        1 << 63,
        (1 << 24) + 1,
        (1 << 53) + 1,
        1 << 25,
        1 << 54,
        9007199254740993,
        16777217,
        1,
        1 << 32,
    ];
    let wc = pick(r.sel[2], 16);
    let base: u64 = if wc < 14 {
        specials_w[wc]
    } else if wc == 14 {
        10u64.pow((r.k[0] % 20) as u32)
    } else {
        r.a >> (r.k[0] % 64)
    };
    let delta = (r.k[1] % 7) as i64 - 3;
    let w = (base as i128 + delta as i128).clamp(1, u64::MAX as i128) as u64;
    let qs: [i64; 20] = match fmt {
        Fmt::F32 => [-10, 10, 17, -17, 11, 18, -11, 38, 39, -65, -66, -45, -46, -27, 55, 0, 1, -1, 7, 22],
        Fmt::F64 => [-22, 22, 37, -4, 23, 38, -23, 308, 309, -342, -343, -324, -325, -27, 55, 0, 1, -1, 15, 24],
    };
    let q = qs[pick(r.sel[3], 20)] + (r.k[2] % 5) as i64 - 2;
    // optionally make it a 20/21 digit input by appending digits
    let mut digits = w.to_string().into_bytes();
    let mut q = q;
    let extra = match r.k[3] % 6 {
        0 => 1,
        1 => 2,
        _ => 0,
    };
    for i in 0..extra {
        digits.push(b'0' + ((r.b >> (4 * i)) % 10) as u8);
        q -= 1;
    }
    let dvals: Vec<u8> = digits.iter().map(|c| c - b'0').collect();
    let mut d = dvals.clone();
    let tz = d.iter().rev().take_while(|&&x| x == 0).count();
    d.truncate(d.len() - tz);
    let point = dvals.len() as i64 + q;
    if r.sel[4] < 0x8000 {
        Case { int: digits, frac: vec![], exp: q as i32, family: "G-E seam", variant: "w*10^q", layout: "integer-only", expect: None }
    } else {
        let (int, frac, exp, lay) = layout(&d, point, r.sel[5], r.k[3] >> 3, false);
        Case { int, frac, exp, family: "G-E seam", variant: "w*10^q", layout: lay, expect: None }
    }
}

// ---------------------------------------------------------------------------
// G-F range ends

pub fn extreme_float(fmt: Fmt, sel: u16, a: u64) -> u64 {
    let inf = fmt.inf_bits();
    let mmask = (1u64 << fmt.mbits()) - 1;
    if sel >= 0xC000 {
        return edge_float(fmt, a % 35);
    }
    match pick(sel, 14) {
        0 => 0,
        1 => 1,
        2 => 2,
        3 => 3,
        4 => mmask,
        5 => mmask - 1,
        6 => mmask + 1,
        7 => mmask + 2,
        8 => inf - 1,
        9 => inf - 2,
        10 => inf - 3,
        11 => {
            // random subnormal: full-width, or by bit length (interior powers of two of the subnormal range)
            if (a >> 59) % 3 == 0 {
                subnormal_by_bitlen(fmt, a, a >> 24)
            } else {
                a & mmask
            }
        }
        12 => (inf - 1) - (a & mmask),             // top binade
        _ => (1u64 << fmt.mbits()) | (a & mmask), // smallest normal binade
    }
}

/// "Virtual" rounding boundaries beyond the finite range: (2M+1) * 2^e with a p-bit M and e so large (or so
/// small) that the value is far outside the format - where an unbounded-exponent float would have had a tie.
/// The extended-precision stages see the same bit patterns there as at a real boundary; the answer must still be
/// +inf (or +0.0).  Exact digits, +-1 in the last place, a 19-digit prefix, or a long tail.
pub fn g_v(fmt: Fmt, r: &Recipe) -> Case {
    let p = fmt.mbits() as u64 + 1;
    let m = (r.a & ((1u64 << (p - 1)) - 1)) | (1u64 << (p - 1));
    let o = Nat::from_u128(2 * m as u128 + 1);
    let top = (1i64 << (fmt.ebits() - 1)) as i64; // 128 / 1024
    let big = r.k[0] % 4 != 0;
    let (digits, point): (Vec<u8>, i64) = if big {
        // value in [2^top, 2^(top+900)) but below ~1e330
        let e = (top - p as i64) as u64 + 1 + (r.b % (1090 - top as u64));
        let n = o.shl(e);
        let d = n.to_digits();
        let len = d.len() as i64;
        (d, len)
    } else {
        // value below 2^-(bias + mbits + 2): less than a quarter of the smallest subnormal
        let e = ((fmt.bias() + fmt.mbits() as i64) as u64 + p + 3 + (r.b % 50)).min(1190);
        let dec = Dec::from_nat(&o.mul(pow5().get(e as usize)), -(e as i64));
        (dec.digits.clone(), dec.point)
    };
    let mut d = digits;
    match r.k[1] % 5 {
        0 => {}
        1 => {
            if *d.last().unwrap() == 9 {
                d.push(1);
            } else {
                *d.last_mut().unwrap() += 1;
            }
        }
        2 => {
            d.truncate(19.min(d.len()));
            while d.len() > 1 && *d.last().unwrap() == 0 {
                d.pop();
            }
        }
        3 => {
            d.truncate((20 + r.k[2] as usize % 30).min(d.len()));
            while d.len() > 1 && *d.last().unwrap() == 0 {
                d.pop();
            }
        }
        _ => {
            while (d.len() as i64) < point && d.len() < 400 {
                d.push(0);
            }
            d.extend(std::iter::repeat(0).take((r.k[2] % 30) as usize));
            d.push(1 + (r.k[3] % 9) as u8);
        }
    }
    let lz = d.iter().take_while(|&&c| c == 0).count();
    let d: Vec<u8> = d[lz..].to_vec();
    let point = point - lz as i64;
    let allow = d.last() == Some(&0);
    let (int, frac, exp, lay) = layout(&d, point, r.sel[4], r.k[3], allow);
    Case { int, frac, exp, family: "G-V virtual boundary beyond the range", variant: if big { "overflow side" } else { "underflow side" }, layout: lay, expect: Some(if big { fmt.inf_bits() } else { 0 }) }
}

pub fn g_f(fmt: Fmt, r: &Recipe, lim: Limits) -> Case {
    if r.sel[2] % 8 == 0 {
        return g_v(fmt, r);
    }
    match pick_w(r.sel[6], &[50, 15, 20, 15]) {
        0 => {
            let x = extreme_float(fmt, r.sel[1], r.a);
            midpoint_case(fmt, r, lim, "G-F range-end", x, &DEFAULT_MID_WEIGHTS)
        }
        1 => {
            // zero significand of every shape x every exponent class
            let n = match r.k[0] % 4 {
                0 => 0,
                1 => 1 + (r.k[1] % 30) as usize,
                2 => 300 + (r.k[1] % 800) as usize,
                _ => (r.k[1] as usize) % (lim.long + 1),
            };
            // fraction of n zeros violates "no trailing zeros" only formally; the
            // property names it explicitly ("a zero significand gives +0.0")
            let frac = vec![b'0'; n];
            let (exp, _) = exponent_of(fmt, r.sel[5], r.b, 0, n);
            Case { int: vec![], frac, exp, family: "G-F range-end", variant: "zero-significand", layout: "fraction-only", expect: Some(0) }
        }
        2 => {
            // compensated extremes: 1 0^n with exponent -n+k ; 0.0^n d.. with exponent n+k
            let n = tail_len(r.sel[3], r.k[0], lim).max(1);
            let (lo10, hi10) = match fmt {
                Fmt::F32 => (-50i64, 42i64),
                Fmt::F64 => (-330i64, 312i64),
            };
            let k = lo10 + (r.b % (hi10 - lo10 + 1) as u64) as i64;
            let lead = stretch_digits(r, 1 + (r.k[1] % 20) as usize, 0xf);
            let mut lead = lead;
            if lead[0] == 0 {
                lead[0] = 1 + (r.k[2] % 9) as u8;
            }
            if *lead.last().unwrap() == 0 {
                *lead.last_mut().unwrap() = 1 + (r.k[3] % 9) as u8;
            }
            if r.k[2] % 2 == 0 {
                let mut int = ascii(&lead);
                int.extend(std::iter::repeat(b'0').take(n));
                Case { int, frac: vec![], exp: (k - n as i64) as i32, family: "G-F range-end", variant: "compensated-big-integer", layout: "integer-only", expect: None }
            } else {
                let mut frac = vec![b'0'; n];
                frac.extend(ascii(&lead));
                Case { int: vec![], frac, exp: (k + n as i64) as i32, family: "G-F range-end", variant: "compensated-small-fraction", layout: "fraction-leading-zeros", expect: None }
            }
        }
        _ => {
            // uncompensable: |exponent| >= 2^30 (or within a few dozen of the i32 limits) with at most `long`
            // digits, in three shapes: integer-only, zero-padded fraction, split.  The exponent adjustments
            // the parser makes (adding the integer digits beyond the 19th, subtracting the fraction digits
            // and the skipped leading zeros) must saturate, never wrap.
            let li = len_class(r.sel[2], r.k[0], lim).min(lim.long).max(1);
            let mut digits = ascii(&stretch_digits(r, li, 0xe));
            if digits[0] == b'0' {
                digits[0] = b'7';
            }
            if *digits.last().unwrap() == b'0' {
                *digits.last_mut().unwrap() = b'3';
            }
            let neg = r.k[1] % 2 == 0;
            let near = (r.b >> 40) % 64; // distance from the i32 limit
            let exp: i32 = match r.k[2] % 4 {
                0 => {
                    if neg {
                        i32::MIN
                    } else {
                        i32::MAX
                    }
                }
                1 => {
                    if neg {
                        i32::MIN + near as i32
                    } else {
                        i32::MAX - near as i32
                    }
                }
                _ => {
                    let mag = (1i64 << 30) + (r.b % (1u64 << 30)) as i64;
                    (if neg { -mag } else { mag }) as i32
                }
            };
            let expect = if neg { 0 } else { fmt.inf_bits() };
            match r.k[3] % 3 {
                0 => Case { int: digits, frac: vec![], exp, family: "G-F range-end", variant: "uncompensable-exponent", layout: "integer-only", expect: Some(expect) },
                1 => {
                    // fraction with z leading zeros (often few significant digits behind many zeros)
                    let z = 1 + (r.k[0] as usize >> 8) % 60;
                    let keep = if r.k[1] % 3 == 0 { digits.len().min(1 + (r.k[1] as usize >> 4) % 19) } else { digits.len() };
                    let mut frac = vec![b'0'; z];
                    frac.extend(&digits[..keep]);
                    if *frac.last().unwrap() == b'0' {
                        *frac.last_mut().unwrap() = b'9';
                    }
                    Case { int: vec![], frac, exp, family: "G-F range-end", variant: "uncompensable-exponent", layout: "fraction-leading-zeros", expect: Some(expect) }
                }
                _ => {
                    let k = 1 + (r.k[0] as usize >> 4) % digits.len().max(2).saturating_sub(1).max(1);
                    let k = k.min(digits.len());
                    let frac = digits.split_off(k);
                    Case { int: digits, frac, exp, family: "G-F range-end", variant: "uncompensable-exponent", layout: "split", expect: Some(expect) }
                }
            }
        }
    }
}

// ---------------------------------------------------------------------------
// G-G long tails: deciding digit at a chosen absolute position

pub fn g_g(fmt: Fmt, r: &Recipe, lim: Limits) -> Case {
    // floats whose boundary H is short are as interesting as long ones here:
    // then the far-out digit is the only thing beyond the cut.
    let (x, _) = if r.sel[6] < 0x5000 {
        // short H: integers near 2^p .. 2^63 and powers of two
        let p = fmt.mbits() as u64 + 1;
        let e = p + r.a % (64 - p);
        let v = (1u64 << e) + ((r.b % 8) << (e - p + 1));
        (round_u64_to_bits(fmt, v), "short-H")
    } else {
        float_of(fmt, r.sel[1], r.a, r.b)
    };
    let h = oracle::hi(fmt, x);
    let mut hd = h.digits.clone();
    pad_to_point(&mut hd, h.point);
    let l = hd.len();
    // absolute position (1-based, counted in significant digits) of the deciding digit
    let maxd = match fmt {
        Fmt::F32 => 114usize,
        Fmt::F64 => 769usize,
    };
    let k = r.k[0] as usize;
    let pos = match pick_w(r.sel[3], &[20, 25, 25, 10, 10, 6, 4]) {
        0 => 18 + k % 5,
        1 => maxd - 2 + k % 6,
        2 => {
            let j = 1 + (k / 3) % 41;
            19 * j + k % 3 - 1
        }
        3 => 1000 + k % 50,
        4 => lim.long - k % 50,
        5 => (lim.long * 10).min(lim.huge) - k % 50,
        _ => lim.huge - k % 50,
    };
    let pos = pos.max(l + 1);
    let n = pos - l - 1; // zeros / nines between H and the deciding digit
    let mut d = hd;
    let point = h.point;
    let mut allow_trailing = false;
    let (variant, expect) = match pick_w(r.sel[2], &[40, 40, 20]) {
        0 => {
            d.extend(std::iter::repeat(0).take(n));
            d.push(1 + (r.k[1] % 9) as u8);
            ("tie+zeros+digit", Some(x + 1))
        }
        1 => {
            // H - one unit in H's last stored place, then nines
            let mut i = d.len() - 1;
            while d[i] == 0 {
                d[i] = 9;
                i -= 1;
            }
            d[i] -= 1;
            d.extend(std::iter::repeat(9).take(n + 1));
            ("tie-1ulp+nines", if l >= safe_len(fmt) || n + 1 >= safe_len(fmt) { Some(x) } else { None })
        }
        _ => {
            d.extend(std::iter::repeat(0).take(n + 1));
            allow_trailing = true;
            ("tie+zeros", Some(tie_even(x)))
        }
    };
    // strip leading zeros that "H-1" may have produced (H = 1 -> 0 999..)
    let lz = d.iter().take_while(|&&c| c == 0).count();
    let d: Vec<u8> = d[lz..].to_vec();
    let point = point - lz as i64;
    let (int, frac, exp, lay) = layout(&d, point, r.sel[4], r.k[3], allow_trailing);
    Case { int, frac, exp, family: "G-G long-tail", variant, layout: lay, expect }
}

// ---------------------------------------------------------------------------
// G-C continued-fraction closest approaches (table built once per process)

#[derive(Clone, Copy, Debug)]
pub struct Hard {
    pub w: u64,
    pub q: i32,
    /// -log2 of the distance from the nearest rounding boundary, in half-ulps
    pub closeness: u32,
}

pub struct HardTable {
    pub f32: Vec<Hard>,
    pub f64: Vec<Hard>,
}

/// For decimal exponent q and binade E, beta = 10^q / 2^(E-p) (half-ulps per
/// unit of w).  Closest approaches of w*beta to an odd integer are found from
/// the convergents of beta.
fn hard_for(fmt: Fmt, q: i32, out: &mut Vec<Hard>, per_binade: usize) {
    let p = fmt.mbits() as i64 + 1;
    let emin = 1 - fmt.bias() - (p - 1); // exponent of the subnormal ulp
    // value = w * 10^q, w in [1, 2^64).  log2 range of the value:
    let l10 = std::f64::consts::LOG2_10;
    let lo_e = (q as f64 * l10).floor() as i64 - 1;
    let hi_e = ((q as f64) * l10 + 64.0).ceil() as i64 + 1;
    let top = fmt.bias() + 1; // 2^top overflows
    for e in lo_e..=hi_e {
        // binade [2^e, 2^(e+1)); half-ulp u = 2^(max(e, emin+p-1) - p)
        if e >= top || e < emin - 2 {
            continue;
        }
        let ue = e.max(emin + p - 1) - p; // log2 of the half-ulp
        // beta = 10^q * 2^-ue = 5^q * 2^(q-ue)
        let (mut num, mut den) = (Nat::one(), Nat::one());
        if q >= 0 {
            num = pow5().get(q as usize).clone();
        } else {
            den = pow5().get((-q) as usize).clone();
        }
        let s = q as i64 - ue;
        if s >= 0 {
            num = num.shl(s as u64);
        } else {
            den = den.shl((-s) as u64);
        }
        // window of w: w*10^q in [2^e, 2^(e+1))  <=>  w*beta in [2^(e-ue), 2^(e+1-ue))
        let lo_t = Nat::pow2((e - ue).max(0) as u64);
        let hi_t = Nat::pow2((e + 1 - ue).max(0) as u64);
        // w_lo = ceil(lo_t * den / num), w_hi = floor((hi_t*den - 1)/num)
        let (wl, rem) = lo_t.mul(&den).divrem(&num);
        let wl = if rem.is_zero() { wl } else { wl.add_small(1) };
        let (wh, _) = hi_t.mul(&den).sub(&Nat::one()).divrem(&num);
        let wl = wl.to_u128().unwrap_or(u128::MAX).max(1);
        let wh = wh.to_u128().unwrap_or(u128::MAX).min(u64::MAX as u128);
        if wl > wh {
            continue;
        }
        // continued fraction of num/den on truncated operands (exactness is not
        // needed: every candidate is measured exactly afterwards)
        let nb = num.bits().max(den.bits());
        let cut = nb.saturating_sub(320);
        let (mut a, mut b) = (num.shr(cut), den.shr(cut));
        if b.is_zero() {
            continue;
        }
        // convergents h/k
        let (mut k0, mut k1) = (1u128, 0u128); // k_{-2}=1? use standard: k_-1 = 0, k_-2 = 1
        let mut ks: Vec<u128> = Vec::new();
        for _ in 0..200 {
            if b.is_zero() {
                break;
            }
            let (qt, rm) = a.divrem(&b);
            let qt = match qt.to_u128() {
                Some(v) => v,
                None => break,
            };
            let k2 = match qt.checked_mul(k1).and_then(|v| v.checked_add(k0)) {
                Some(v) => v,
                None => break,
            };
            if k2 > (1u128 << 66) {
                break;
            }
            ks.push(k2);
            k0 = k1;
            k1 = k2;
            a = b;
            b = rm;
        }
        // candidates: small combinations of the last convergent denominators
        let mut cands: Vec<u64> = Vec::new();
        let tail: Vec<u128> = ks.iter().rev().filter(|&&k| k <= wh).take(6).copied().collect();
        for (i, &ka) in tail.iter().enumerate() {
            for &kb in tail.iter().skip(i) {
                for ma in 0..=8u128 {
                    for mb in 0..=4u128 {
                        let c = ma * ka + mb * kb;
                        if c >= wl && c <= wh {
                            cands.push(c as u64);
                        }
                        if ma * ka > mb * kb {
                            let c = ma * ka - mb * kb;
                            if c >= wl && c <= wh {
                                cands.push(c as u64);
                            }
                        }
                    }
                }
            }
        }
        cands.sort_unstable();
        cands.dedup();
        // measure exactly: t = w*num/den; distance of t from the nearest odd integer
        let mut scored: Vec<Hard> = Vec::new();
        for &w in &cands {
            let t = num.mul_small(w);
            let (fl, rem) = t.divrem(&den);
            // nearest odd integer to t: if floor is odd -> distance rem/den from below,
            // else distance (den - rem)/den to floor+1
            let dist = if fl.is_odd() { rem } else { den.sub(&rem) };
            if dist.is_zero() {
                // exact tie (short exact ties; keep, closeness = max)
                scored.push(Hard { w, q, closeness: 200 });
                continue;
            }
            let c = den.bits() as i64 - dist.bits() as i64; // ~ -log2(dist/den)
            if c >= 10 {
                scored.push(Hard { w, q, closeness: c as u32 });
            }
        }
        scored.sort_by(|a, b| b.closeness.cmp(&a.closeness));
        scored.truncate(per_binade);
        out.extend(scored);
    }
}

pub fn hard_table() -> &'static HardTable {
    use std::sync::OnceLock;
    static T: OnceLock<HardTable> = OnceLock::new();
    T.get_or_init(|| {
        let build = |fmt: Fmt, qlo: i32, qhi: i32| -> Vec<Hard> {
            let qs: Vec<i32> = (qlo..=qhi).collect();
            let nthreads = 16usize;
            let chunks: Vec<Vec<i32>> = (0..nthreads).map(|t| qs.iter().copied().filter(|q| (q - qlo) as usize % nthreads == t).collect()).collect();
            let mut all: Vec<Hard> = std::thread::scope(|s| {
                let hs: Vec<_> = chunks
                    .iter()
                    .map(|c| {
                        s.spawn(move || {
                            let mut out = Vec::new();
                            for &q in c {
                                hard_for(fmt, q, &mut out, 10);
                            }
                            out
                        })
                    })
                    .collect();
                hs.into_iter().flat_map(|h| h.join().unwrap()).collect()
            });
            all.sort_by_key(|h| (h.q, h.w));
            all
        };
        HardTable { f32: build(Fmt::F32, -65, 39), f64: build(Fmt::F64, -343, 309) }
    })
}

pub fn g_c(fmt: Fmt, r: &Recipe, lim: Limits) -> Case {
    let t = hard_table();
    let tab = match fmt {
        Fmt::F32 => &t.f32,
        Fmt::F64 => &t.f64,
    };
    let h = tab[((r.a as u128 * tab.len() as u128) >> 64) as usize];
    let delta = [0i64, 0, 0, 1, -1, 2, -2, 3, -3][(r.k[0] % 9) as usize];
    let w = (h.w as i128 + delta as i128).clamp(1, u64::MAX as i128) as u64;
    let mut digits: Vec<u8> = w.to_string().bytes().map(|c| c - b'0').collect();
    let mut q = h.q as i64;
    // optional extra digits beyond w, so that the 19-digit cut and the w / w+1
    // comparison are exercised
    let variant;
    match pick_w(r.sel[2], &[50, 15, 15, 20]) {
        0 => variant = "w*10^q",
        1 => {
            // pad to 19 digits then 0^n 1
            while digits.len() < 19 {
                digits.push(0);
                q -= 1;
            }
            let n = tail_len(r.sel[3], r.k[1], lim).min(lim.long);
            digits.extend(std::iter::repeat(0).take(n));
            digits.push(1);
            q -= n as i64 + 1;
            variant = "w then 0^n 1";
        }
        2 => {
            // (w-1) padded to 19 digits followed by nines
            let w1 = w.saturating_sub(1).max(1);
            digits = w1.to_string().bytes().map(|c| c - b'0').collect();
            while digits.len() < 19 {
                digits.push(9);
                q -= 1;
            }
            let n = 1 + tail_len(r.sel[3], r.k[1], lim).min(lim.long);
            digits.extend(std::iter::repeat(9).take(n));
            q -= n as i64;
            variant = "(w-1) then 9^n";
        }
        _ => {
            let n = 1 + (r.k[1] % 40) as usize;
            let extra = stretch_digits(r, n, 0xc);
            digits.extend(extra);
            q -= n as i64;
            variant = "w then random digits";
        }
    }
    let full_len = digits.len() as i64;
    let tz = digits.iter().rev().take_while(|&&x| x == 0).count();
    let mut d = digits.clone();
    d.truncate(d.len() - tz);
    let point = full_len + q;
    if r.sel[4] < 0x8000 || d.is_empty() {
        Case { int: ascii(&digits), frac: vec![], exp: q as i32, family: "G-C closest-approach", variant, layout: "integer-only", expect: None }
    } else {
        let (int, frac, exp, lay) = layout(&d, point, r.sel[5], r.k[3], false);
        Case { int, frac, exp, family: "G-C closest-approach", variant, layout: lay, expect: None }
    }
}

/// G-C restricted to the ends of the range (subnormal results / top binade).
pub fn g_c_edge(fmt: Fmt, r: &Recipe, lim: Limits) -> Case {
    let t = hard_table();
    let (tab, lo_q, hi_q) = match fmt {
        Fmt::F32 => (&t.f32, -37i32, 29i32),
        Fmt::F64 => (&t.f64, -305i32, 289i32),
    };
    // the table is sorted by q: the low and high ends are contiguous slices
    let n_lo = tab.partition_point(|h| h.q < lo_q);
    let n_hi_start = tab.partition_point(|h| h.q <= hi_q);
    let total = n_lo + (tab.len() - n_hi_start);
    if total == 0 {
        return g_c(fmt, r, lim);
    }
    let i = ((r.a as u128 * total as u128) >> 64) as usize;
    let idx = if i < n_lo { i } else { n_hi_start + (i - n_lo) };
    // re-use g_c's emission by steering its index to `idx`
    let mut r2 = r.clone();
    r2.a = (((idx as u128) << 64) / tab.len() as u128) as u64 + ((1u128 << 64) / (2 * tab.len() as u128)) as u64;
    let mut c = g_c(fmt, &r2, lim);
    c.family = "G-C closest-approach (range ends)";
    c
}

// ---------------------------------------------------------------------------
// G-M: inputs that make the low word of Eisel-Lemire's first 64x64 product exactly u64::MAX
// (the `lo == 0xFFFF_FFFF_FFFF_FFFF` fallback), constructed by modular inversion of the
// 128-bit table's high word: w = -(T_hi)^-1 mod 2^64.

fn inv_mod_2_64(a: u64) -> u64 {
    debug_assert!(a & 1 == 1);
    let mut x = a; // correct to 3 bits
    for _ in 0..6 {
        x = x.wrapping_mul(2u64.wrapping_sub(a.wrapping_mul(x)));
    }
    x
}

/// (w, q) with w in [2^63, 2^64) and low64(w * T_hi(q)) == u64::MAX, for every q whose
/// table high word is odd.  `T_hi` is recomputed from its definition (not read from the crate).
pub fn lemire_lo_max_pairs() -> &'static Vec<(u64, i32)> {
    use std::sync::OnceLock;
    static T: OnceLock<Vec<(u64, i32)>> = OnceLock::new();
    T.get_or_init(|| {
        let mut out = Vec::new();
        for q in -342..=308i32 {
            let (hi, _lo) = crate::props::c14::lemire_entry(q);
            if hi & 1 == 0 {
                continue;
            }
            let w = inv_mod_2_64(hi).wrapping_neg();
            debug_assert!(w.wrapping_mul(hi) == u64::MAX);
            if w >> 63 == 1 {
                out.push((w, q));
            }
        }
        out
    })
}

pub fn g_m(fmt: Fmt, r: &Recipe) -> Case {
    let _ = fmt;
    let t = lemire_lo_max_pairs();
    let (w, q) = t[((r.a as u128 * t.len() as u128) >> 64) as usize];
    // the 19-digit decimal significands among them first (reachable through parse_number without truncation)
    let small: Vec<&(u64, i32)> = t.iter().filter(|(w, _)| *w < 10_000_000_000_000_000_000).collect();
    let (w, q) = if r.sel[2] < 0xA000 && !small.is_empty() { *small[(r.b % small.len() as u64) as usize] } else { (w, q) };
    let mut digits: Vec<u8> = w.to_string().into_bytes();
    let mut q = q as i64;
    let variant = match r.k[0] % 5 {
        0 | 1 => "w*10^q",
        2 => {
            // 20-digit truncation variant: w followed by extra digits
            let n = 1 + (r.k[1] % 30) as usize;
            let extra = stretch_digits(r, n, 0x6d);
            digits.extend(extra.iter().map(|d| d + b'0'));
            q -= n as i64;
            "w then digits"
        }
        3 if w >= 1_000_000_000_000_000_001 && w < 10_000_000_000_000_000_000 => {
            // the prefix is w - 1, so that it is the *second* pass (prefix + 1) that meets lo == MAX
            digits = (w - 1).to_string().into_bytes();
            let n = 1 + (r.k[1] % 30) as usize;
            let extra = stretch_digits(r, n, 0x6e);
            digits.extend(extra.iter().map(|d| d + b'0'));
            q -= n as i64;
            "w-1 then digits"
        }
        _ => "w split",
    };
    if variant == "w split" && digits.len() > 1 && *digits.last().unwrap() != b'0' {
        let k = 1 + (r.k[1] as usize) % (digits.len() - 1);
        let frac = digits.split_off(k);
        let e = q + frac.len() as i64;
        return Case { int: digits, frac, exp: e as i32, family: "G-M lemire lo==MAX", variant, layout: "split", expect: None };
    }
    if *digits.last().unwrap() == b'0' && variant != "w*10^q" {
        *digits.last_mut().unwrap() = b'7';
    }
    Case { int: digits, frac: vec![], exp: q as i32, family: "G-M lemire lo==MAX", variant, layout: "integer-only", expect: None }
}

// ---------------------------------------------------------------------------
// G-N: big integers whose binary form has a run of zero limbs (so that the long multiplication by
// the large power of five skips rows), placed within 2^-100 of a rounding boundary and scaled by
// 10^e with e >= 135.  f64 only (the value must exceed 10^289).

pub fn g_n(r: &Recipe) -> Case {
    let fmt = Fmt::F64;
    // a float in the top ~60 binades
    let emax = (1u64 << fmt.ebits()) - 2;
    let be = emax - (r.a % 40);
    let x = (be << fmt.mbits()) | (r.b & ((1u64 << fmt.mbits()) - 1));
    let h = oracle::hi(fmt, x.min(fmt.inf_bits() - 1));
    // H is an integer here; N0 = H / 10^e
    let mut hd = h.digits.clone();
    while (hd.len() as i64) < h.point {
        hd.push(0);
    }
    let hn = Nat::from_digits(&hd);
    let e = 135 + (r.k[0] % 12) / 3; // 135..138: the quotient must keep >= 7 limbs
    let (n0, _) = hn.divrem(&Nat::pow_small(10, e));
    // keep the top limbs (at least 80 bits of them, so that the value stays within 2^-64 of the boundary and
    // Eisel-Lemire has to decline), zero `k` limbs below them, put a small limb at the bottom
    let limbs = n0.limbs();
    let k = 1 + (r.k[1] as usize % 8);
    let max_keep = (n0.bits().saturating_sub(80) / 64) as usize;
    let keep_from = (k + 1).min(max_keep).max(1).min(limbs.saturating_sub(1));
    let mut l = vec![0u64; limbs];
    for i in keep_from..limbs {
        l[i] = n0.l[i];
    }
    // the bottom limb: small and non-zero, or zero as well (then the integer is a multiple of 2^64)
    l[0] = if r.k[2] % 4 == 0 { 0 } else { 1 + (r.k[2] as u64 % 1000) };
    if r.k[3] % 3 == 0 && keep_from > 2 {
        l[keep_from / 2] = 1 + (r.k[3] as u64 >> 2); // one isolated limb inside the run
    }
    let n = Nat::from_limbs(&l);
    let digits: Vec<u8> = n.to_digits().iter().map(|d| d + b'0').collect();
    if digits.is_empty() {
        return g_b(fmt, r, QUICK);
    }
    Case { int: digits, frac: vec![], exp: e as i32, family: "G-N sparse-limb integer", variant: "N*10^e, e>=135", layout: "integer-only", expect: None }
}

// ---------------------------------------------------------------------------
// G-P: decimal expansions of powers of two (and 2^K +- 1) scaled by 10^-n that come closest to a
// rounding boundary o * 2^(e-1): there the two big integers compared by the slow path straddle a
// power of two (same limb count, different bit length).  Table: for each n the odd o nearest to
// 2^K0 / 5^n, ranked by |o * 5^n - 2^K0| / 2^K0.

#[derive(Clone, Copy, Debug)]
pub struct PowHard {
    pub n: u32,
    pub k0: u32,
    pub o: u64,
    /// -log2 of the relative distance
    pub closeness: u32,
    /// o * 5^n < 2^K0
    pub below: bool,
}

pub fn pow2_table(fmt: Fmt) -> &'static Vec<PowHard> {
    use std::sync::OnceLock;
    static T64: OnceLock<Vec<PowHard>> = OnceLock::new();
    static T32: OnceLock<Vec<PowHard>> = OnceLock::new();
    let build = |fmt: Fmt| -> Vec<PowHard> {
        let p = fmt.mbits() as u64 + 1; // o = 2m+1 has p+1 bits for normal m
        let nmax = match fmt {
            Fmt::F32 => 160usize,
            Fmt::F64 => 1100usize,
        };
        let mut all = Vec::new();
        for n in 1..=nmax {
            let f = pow5().get(n);
            // K0 with 2^K0 / 5^n in [2^p, 2^(p+1))
            let k0 = f.bits() + p; // 2^(bits+p) / 5^n in (2^p, 2^(p+1)]
            let (q, rem) = Nat::pow2(k0).divrem(f);
            let mut o = match q.to_u64() {
                Some(v) => v,
                None => continue,
            };
            // nearest odd integer to the real quotient
            let twice = rem.shl(1);
            let round_up = twice.cmp(f) != std::cmp::Ordering::Less;
            if o & 1 == 0 {
                // neighbours o-1 and o+1: real quotient in [o, o+1) -> o+1 is nearer iff fractional part... both at distance <= 1
                o = if round_up || true { o + 1 } else { o - 1 };
            }
            if o >> p != 1 {
                continue;
            }
            let prod = f.mul_small(o);
            let target = Nat::pow2(k0);
            let (below, dist) = if prod.cmp(&target) == std::cmp::Ordering::Less { (true, target.sub(&prod)) } else { (false, prod.sub(&target)) };
            let closeness = if dist.is_zero() { 200 } else { (k0 + 1).saturating_sub(dist.bits()) as u32 };
            all.push(PowHard { n: n as u32, k0: k0 as u32, o, closeness, below });
        }
        all.sort_by(|a, b| b.closeness.cmp(&a.closeness));
        all.truncate(64);
        all
    };
    match fmt {
        Fmt::F64 => T64.get_or_init(|| build(Fmt::F64)),
        Fmt::F32 => T32.get_or_init(|| build(Fmt::F32)),
    }
}

pub fn g_p(fmt: Fmt, r: &Recipe) -> Case {
    let t = pow2_table(fmt);
    let h = t[pick(r.sel[2], t.len())];
    // boundary o * 2^(e-1) ~ 2^K / 10^n  with K = K0 + n + e - 1; pick the float exponent e
    let emin_sub = 1 - fmt.bias() - fmt.mbits() as i64;
    let emax = fmt.bias() - fmt.mbits() as i64; // exponent of the top binade's ulp
    let lo_e = (emin_sub + 1).max(1 - h.k0 as i64 - h.n as i64 + 1);
    let e = lo_e + (r.a % ((emax - lo_e + 1).max(1)) as u64) as i64;
    let k = h.k0 as i64 + h.n as i64 + e - 1;
    if k < 0 || k > 4000 {
        return g_b(fmt, r, QUICK);
    }
    let p2 = Nat::pow2(k as u64);
    let (num, variant) = match r.k[0] % 4 {
        0 => (p2, "2^K / 10^n"),
        1 => (p2.sub(&Nat::one()), "(2^K - 1) / 10^n"),
        2 => (p2.add_small(1), "(2^K + 1) / 10^n"),
        _ => {
            // a few more digits: 2^K followed by a digit, one more power of ten in the divisor
            (p2.mul_small(10).add_small(1 + (r.k[1] % 9) as u64), "(10 * 2^K + d) / 10^(n+1)")
        }
    };
    let extra = if variant.starts_with("(10") { 1 } else { 0 };
    let d = Dec::from_nat(&num, -(h.n as i64) - extra);
    let (int, frac, exp, lay) = layout(&d.digits, d.point, r.sel[4], r.k[3], false);
    Case { int, frac, exp, family: "G-P power-of-two near boundary", variant, layout: lay, expect: None }
}

// ---------------------------------------------------------------------------
// G-R: special 19-digit prefixes.  With more than 19 digits the moderate path is run on the prefix P and on
// P + 1; the interesting (P, q) are those where a rounding boundary lies strictly between P * 10^q and
// (P + 1) * 10^q.  For a random boundary P is an arbitrary 19-digit number; here P is one whose successor has
// a special binary or decimal form (2^k - 1 -> 2^k: the normalised significand carries out of 64 bits;
// 10^19 - 1 -> 10^19; d * 10^18 - 1), paired with every q for which such a boundary exists.  The inputs are the
// usual boundary variants (tie, +-1 digit, zero / nine tails, cuts) of that boundary, all of which start with P.

#[derive(Clone, Copy, Debug)]
pub struct PrefixHard {
    pub p: u64,
    pub q: i32,
    /// the float below the boundary
    pub x: u64,
}

pub fn special_prefixes() -> Vec<u64> {
    let mut v: Vec<u64> = Vec::new();
    for k in 60..=63u32 {
        v.push((1u64 << k) - 1);
        v.push(1u64 << k);
        v.push((1u64 << k) - 2);
    }
    v.push(1_000_000_000_000_000_000);
    v.push(9_999_999_999_999_999_999);
    v.push(9_999_999_999_999_999_998);
    for d in [2u64, 5, 9] {
        v.push(d * 1_000_000_000_000_000_000 - 1);
    }
    v
}

pub fn prefix_table(fmt: Fmt) -> &'static Vec<PrefixHard> {
    use std::sync::OnceLock;
    static T64: OnceLock<Vec<PrefixHard>> = OnceLock::new();
    static T32: OnceLock<Vec<PrefixHard>> = OnceLock::new();
    let build = |fmt: Fmt| -> Vec<PrefixHard> {
        let (qlo, qhi) = match fmt {
            Fmt::F32 => (-66i32, 21i32),
            Fmt::F64 => (-345i32, 291i32),
        };
        let mut out = Vec::new();
        for p in special_prefixes() {
            let d0 = p.to_string().into_bytes();
            let d1 = (p as u128 + 1).to_string().into_bytes();
            for q in qlo..=qhi {
                let a = oracle::expected_fast(fmt, &d0, b"", q as i64);
                let b = oracle::expected_fast(fmt, &d1, b"", q as i64);
                if a == b || a >= fmt.inf_bits() {
                    continue;
                }
                let lo = Dec::from_input(&d0, b"", q as i64);
                let up = Dec::from_input(&d1, b"", q as i64);
                for x in [a.saturating_sub(1), a] {
                    if x >= fmt.inf_bits() - 1 && x != a {
                        continue;
                    }
                    if x >= fmt.inf_bits() {
                        continue;
                    }
                    let h = oracle::hi(fmt, x);
                    if h.cmp(&lo) == std::cmp::Ordering::Greater && h.cmp(&up) == std::cmp::Ordering::Less {
                        out.push(PrefixHard { p, q, x });
                    }
                }
            }
        }
        out
    };
    match fmt {
        Fmt::F64 => T64.get_or_init(|| build(Fmt::F64)),
        Fmt::F32 => T32.get_or_init(|| build(Fmt::F32)),
    }
}

pub fn g_r(fmt: Fmt, r: &Recipe, lim: Limits) -> Case {
    let t = prefix_table(fmt);
    if t.is_empty() {
        return g_b(fmt, r, lim);
    }
    let e = t[pick(r.sel[1], t.len())];
    // the boundary variants that keep at least 20 digits (so that the prefix logic is in play)
    const W: [u32; 9] = [14, 6, 12, 12, 16, 16, 8, 0, 0];
    let mut c = midpoint_case(fmt, r, lim, "G-R special 19-digit prefix", e.x, &W);
    c.expect = None;
    c
}

// ---------------------------------------------------------------------------
// G-T: exact tie integers (and their +-1 neighbours) of a chosen bit length, written out as plain integers:
// the big integer then has a chosen number of limbs when its high 64 bits are taken (1, 2, 3, ... 32-bit
// limbs; 1, 2 64-bit limbs), which selects the arm of `hi64`.

/// Decimal expansions of the values at which a 64- or 32-bit digit accumulator wraps (k * 2^64, k * 2^32, and
/// their neighbours), optionally followed by zeros, in every layout.
fn wrap_point_case(r: &Recipe) -> Case {
    let k = 1 + (r.k[1] % 9) as u128;
    let base: u128 = match r.k[2] % 4 {
        0 | 1 => k << 64,
        2 => k << 32,
        _ => (k << 64) + ((r.a as u128 % 7) << 32),
    };
    let v = match r.k[3] % 5 {
        0 => base + 1,
        1 => base - 1,
        _ => base,
    };
    let mut d: Vec<u8> = v.to_string().bytes().map(|c| c - b'0').collect();
    let zeros = match (r.k[3] / 5) % 4 {
        0 => 0,
        1 => 1 + (r.b % 5) as usize,
        2 => 20 + (r.b % 30) as usize,
        _ => (r.b % 800) as usize,
    };
    // decimal point: near the digits, or anywhere in (and beyond) the finite range of either format
    let point = match r.sel[6] % 4 {
        0 | 1 => d.len() as i64 + (r.b >> 16) as i64 % 61 - 30,
        2 => (r.b >> 16) as i64 % 720 - 360,
        _ => {
            let edges: [i64; 10] = [309, 310, 330, 39, 40, -323, -345, -44, -60, 400];
            edges[((r.b >> 16) % 10) as usize] + d.len() as i64 * ((r.b >> 24) % 2) as i64
        }
    };
    // more digits after the wrap point (so that a 20-digit accumulation is followed by truncated digits)
    if r.sel[5] % 3 == 0 {
        d.extend(stretch_digits(r, 1 + (r.k[2] as usize) % 30, 0x77));
        if d.last() == Some(&0) {
            *d.last_mut().unwrap() = 3;
        }
    }
    d.extend(std::iter::repeat(0).take(zeros));
    let allow = d.last() == Some(&0);
    let (int, frac, exp, lay) = layout(&d, point, r.sel[4], r.k[0], allow);
    Case { int, frac, exp, family: "G-T tie integer by bit length", variant: "accumulator wrap point (k*2^64, k*2^32)", layout: lay, expect: None }
}

pub fn g_t(fmt: Fmt, r: &Recipe) -> Case {
    if r.sel[3] % 4 == 0 {
        return wrap_point_case(r);
    }
    let p = fmt.mbits() as u64 + 1;
    // total bit length of the tie integer (2M+1) * 2^j: from p+1 (the smallest integer tie) to p+1+120
    let extra = match r.k[0] % 4 {
        0 => (r.k[1] % 12) as u64,          // a few bits above the smallest ties
        1 => (r.k[1] % (65 - p as u32).max(1)) as u64, // up to 64 bits in all
        2 => 64 - p - 1 + (r.k[1] % 40) as u64,       // around the 64-bit edge and above
        _ => (r.k[1] % 120) as u64,
    };
    let m = (r.a & ((1u64 << (p - 1)) - 1)) | (1u64 << (p - 1)); // p-bit significand
    let tie = Nat::from_u128(2 * m as u128 + 1).shl(extra);
    let n = match r.k[2] % 5 {
        0 => tie.add_small(1),
        1 => tie.sub(&Nat::one()),
        _ => tie,
    };
    let digits: Vec<u8> = n.to_digits().iter().map(|d| d + b'0').collect();
    let variant = match r.k[2] % 5 {
        0 => "tie+1",
        1 => "tie-1",
        _ => "tie",
    };
    // occasionally the same value with a fraction ".0...01" / trailing exponent form
    if r.k[3] % 4 == 0 {
        let mut frac = vec![b'0'; (r.k[3] as usize >> 2) % 30];
        frac.push(b'1' + (r.k[3] % 9) as u8);
        return Case { int: digits, frac, exp: 0, family: "G-T tie integer by bit length", variant: "tie + fraction", layout: "split", expect: None };
    }
    Case { int: digits, frac: vec![], exp: 0, family: "G-T tie integer by bit length", variant, layout: "integer-only", expect: None }
}

// ---------------------------------------------------------------------------
// G-S: significands at the carry boundary of Eisel-Lemire's second multiplication (f64).  With the normalised
// significand W = w << lz and the 128-bit table entry T, the code forms A = W * T_hi, and - when the low 9 bits
// of A >> 64 are all ones - B = W * T_lo, adding B >> 64 into A with a carry.  The carry happens iff
// (W * T) mod 2^128 wraps; the inputs closest to that decision are those with (W * T) mod 2^137 just above 0
// (carried, barely) or just below 2^137 (not carried, barely).  They are found exactly with the same
// "smallest x with l <= a*x mod m <= r" solver as the lo == MAX search, per decimal exponent and per bit length
// of w, for w of 15, 16, 17 and 19 decimal digits (15/16-digit ones are the shortest renderings of their floats,
// which is how C03 reaches them).  Any approximation of the second product is wrong on these first.

#[derive(Clone, Copy, Debug)]
pub struct CarryHard {
    pub w: u64,
    pub q: i32,
    pub digits: u32,
    /// true: the product wrapped by a hair; false: it stopped a hair short
    pub carried: bool,
}

fn solve_window_first(t: &Nat, m: &Nat, lo: &Nat, hi: &Nat, start: &Nat, end: &Nat) -> Option<Nat> {
    use std::cmp::Ordering::*;
    let (_, tm) = t.divrem(m);
    let (_, c) = tm.mul(start).divrem(m);
    let sub_mod = |v: &Nat| -> Nat {
        if v.cmp(&c) != Less {
            v.sub(&c)
        } else {
            v.add(m).sub(&c)
        }
    };
    let (l, r) = (sub_mod(lo), sub_mod(hi));
    let x = if l.cmp(&r) == Greater { Some(Nat::zero()) } else { min_mod_in_range(&tm, m, &l, &r, 0) }?;
    let w = start.add(&x);
    if w.cmp(end) == Less {
        Some(w)
    } else {
        None
    }
}

pub fn lemire_carry_table() -> &'static Vec<CarryHard> {
    use std::sync::OnceLock;
    static T: OnceLock<Vec<CarryHard>> = OnceLock::new();
    T.get_or_init(|| {
        let mut out = Vec::new();
        for q in -342..=308i32 {
            let (hi, lo) = crate::props::c14::lemire_entry(q);
            let t = Nat::from_u128(((hi as u128) << 64) | lo as u128);
            for digits in [15u32, 16, 17, 19] {
                let dlo = 10u64.pow(digits - 1);
                let dhi = if digits == 19 { 9_999_999_999_999_999_999 } else { 10u64.pow(digits) - 1 };
                if digits <= 15 && (-22..=22).contains(&q) {
                    continue; // fast path
                }
                let (blo, bhi) = (64 - dlo.leading_zeros() as u64, 64 - dhi.leading_zeros() as u64);
                for b in blo..=bhi {
                    let lz = 64 - b;
                    let start = (1u64 << (b - 1)).max(dlo);
                    let end = if b == 64 { dhi } else { ((1u64 << b) - 1).min(dhi) };
                    if start > end {
                        continue;
                    }
                    let mbits = 137 - lz;
                    let m = Nat::pow2(mbits);
                    // window sized for about two solutions in [2^(b-1), 2^b)
                    let width = mbits - (b - 1) + 1;
                    let wnd = Nat::pow2(width);
                    let (s, e) = (Nat::from_u64(start), Nat::from_u128(end as u128 + 1));
                    if let Some(w) = solve_window_first(&t, &m, &Nat::zero(), &wnd.sub(&Nat::one()), &s, &e) {
                        out.push(CarryHard { w: w.to_u64().unwrap(), q, digits, carried: true });
                    }
                    if let Some(w) = solve_window_first(&t, &m, &m.sub(&wnd), &m.sub(&Nat::one()), &s, &e) {
                        out.push(CarryHard { w: w.to_u64().unwrap(), q, digits, carried: false });
                    }
                }
            }
        }
        out
    })
}

/// Independent re-check of every table entry with plain u128 arithmetic (harness self-test).
pub fn validate_carry_table() -> Result<usize, String> {
    let t = lemire_carry_table();
    for e in t.iter() {
        let (hi, lo) = crate::props::c14::lemire_entry(e.q);
        let lz = e.w.leading_zeros();
        let wn = (e.w << lz) as u128;
        let a = wn * hi as u128;
        let b = wn * lo as u128;
        let low_sum = (a & 0xffff_ffff_ffff_ffff) + (b >> 64); // < 2^65
        let carry = (low_sum >> 64) as u128;
        let bits_128_137 = (((a >> 64) + carry) & 0x1ff) as u64;
        let low128_top = (low_sum & 0xffff_ffff_ffff_ffff) as u64; // bits [64,128) of the full product
        // carried: the product mod 2^137 is tiny; not carried: it is just below 2^137
        // the search window was 2^(137 - b + 2) wide for a b-bit significand: the word below bit 128 is below 2^(76 - b)
        let b = 64 - lz as u64;
        let lim = 1u64 << (76 - b).min(63);
        let ok = if e.carried { bits_128_137 == 0 && low128_top < lim } else { bits_128_137 == 0x1ff && low128_top > u64::MAX - lim };
        if !ok {
            return Err(format!("carry table entry {:?} does not have the claimed product shape (bits [128,137) = {:#x}, next word {:#x})", e, bits_128_137, low128_top));
        }
        let d = e.w.to_string().len() as u32;
        if d != e.digits {
            return Err(format!("carry table entry {:?} has {} digits", e, d));
        }
    }
    Ok(t.len())
}

pub fn g_s(r: &Recipe) -> Case {
    let t = lemire_carry_table();
    if t.is_empty() {
        return g_d(Fmt::F64, r);
    }
    let e = t[pick(r.sel[1], t.len())];
    let mut int = e.w.to_string().into_bytes();
    let variant = if e.carried { "second product barely carries" } else { "second product barely does not carry" };
    // the exact significand, or (19 digits) followed by truncated digits
    if e.digits == 19 && r.k[0] % 3 == 0 {
        let n = 1 + (r.k[1] as usize) % 40;
        let mut frac: Vec<u8> = vec![b'0'; n];
        frac.push(b'1' + (r.k[2] % 9) as u8);
        return Case { int, frac, exp: e.q, family: "G-S Lemire carry boundary", variant, layout: "split", expect: None };
    }
    // layout: integer with exponent, or the point moved inside
    if r.k[0] % 3 == 1 && int.len() > 1 {
        let k = 1 + (r.k[3] as usize) % (int.len() - 1);
        let frac = int.split_off(k);
        let moved = frac.len() as i32;
        let frac = {
            let mut f = frac;
            while f.last() == Some(&b'0') {
                f.pop();
            }
            f
        };
        return Case { int, frac, exp: e.q + moved, family: "G-S Lemire carry boundary", variant, layout: "split", expect: None };
    }
    Case { int, frac: vec![], exp: e.q, family: "G-S Lemire carry boundary", variant, layout: "integer-only", expect: None }
}

// ---------------------------------------------------------------------------
// mixtures

// ---------------------------------------------------------------------------
// G-I: interior points.  Every boundary-directed family sits at (or within a hair of) a rounding boundary or an
// exact float, where the extended-precision stage either is undecided or sees an exact product; the INTERIOR of a
// rounding interval is only met by shaped-random inputs, which never land next to a special float.  Here:
// x special (float classes, extremes, subnormals by bit length), value (x + num / 2^k) ulp with k in 2..40 -
// quarter points, 1 - 2^-k, 2^-k, around the middle -, kept exactly or cut to a length the moderate path decides
// on its own (<= 19 digits) or sees as a truncated prefix (20..50).

pub fn g_i(fmt: Fmt, r: &Recipe, extreme: bool) -> Case {
    let x = match (extreme, r.sel[6] % 8) {
        (true, 0..=3) | (false, 0) => subnormal_by_bitlen(fmt, r.a, r.b >> 7),
        (true, _) => extreme_float(fmt, r.sel[1], r.a),
        (false, _) => float_of(fmt, r.sel[1], r.a, r.b).0,
    };
    let (m, e) = fmt.decode(x);
    let k = [2u32, 2, 3, 4, 8, 16, 33, 40][(r.k[0] % 8) as usize];
    let one = 1u128 << k;
    let num: u128 = match r.k[1] % 6 {
        0 => 1,
        1 => one - 1,
        2 => one / 2 + 1,
        3 => one / 2 - 1,
        4 => one / 4 * 3,
        _ => ((gen_u128(r) % one) | 1).min(one - 1),
    };
    let full = oracle::dec_of_scaled(&Nat::from_u128(((m as u128) << k) + num), e - k as i64);
    let mut d = full.digits.clone();
    let keep = match r.k[2] % 6 {
        0 => d.len(),
        1 => 17,
        2 => 19,
        3 => 15 + (r.k[3] % 6) as usize,
        4 => 20 + (r.k[3] % 31) as usize,
        _ => 1 + (r.k[3] % 19) as usize,
    };
    let variant = if keep >= d.len() {
        "exact interior point"
    } else {
        d.truncate(keep);
        if (r.k[2] / 6) % 2 == 1 && *d.last().unwrap() != 9 {
            *d.last_mut().unwrap() += 1;
        }
        while let Some(&0) = d.last() {
            d.pop();
        }
        if keep <= 19 {
            "interior point cut to <= 19 digits"
        } else {
            "interior point cut to 20..50 digits"
        }
    };
    if d.is_empty() {
        d.push(1);
    }
    let (int, frac, exp, lay) = layout(&d, full.point, r.sel[4], r.k[3], false);
    Case { int, frac, exp, family: "G-I interior point", variant, layout: lay, expect: None }
}

fn gen_u128(r: &Recipe) -> u128 {
    ((mix(r.a ^ 0x1e) as u128) << 64) | mix(r.b ^ 0x1e) as u128
}


/// The C01/C02 mixture: G-B 35, G-C 20, G-A 15, G-D 7, G-E 10, G-F 6, G-G 7.
pub fn mixed(fmt: Fmt, r: &Recipe, lim: Limits) -> Case {
    match pick_w(r.sel[0], &[30, 20, 13, 7, 10, 6, 7, 1, 1, 1, 1, 1, 2, 3]) {
        13 => g_i(fmt, r, r.sel[5] % 4 == 0),
        10 => g_r(fmt, r, lim),
        11 => g_t(fmt, r),
        12 => {
            if fmt == Fmt::F64 {
                g_s(r)
            } else {
                g_d(fmt, r)
            }
        }
        0 => g_b(fmt, r, lim),
        1 => g_c(fmt, r, lim),
        2 => g_a(fmt, r, lim),
        3 => g_d(fmt, r),
        4 => g_e(fmt, r),
        5 => g_f(fmt, r, lim),
        6 => g_g(fmt, r, lim),
        7 => g_m(fmt, r),
        8 => g_p(fmt, r),
        _ => {
            if fmt == Fmt::F64 {
                g_n(r)
            } else {
                g_m(fmt, r)
            }
        }
    }
}

/// The same mixture without the closest-approach table (used by the fuzz
/// targets, where coverage feedback plays the role of that table).
pub fn mixed_no_table(fmt: Fmt, r: &Recipe, lim: Limits) -> Case {
    match pick_w(r.sel[0], &[44, 20, 9, 12, 6, 8, 1]) {
        0 => g_b(fmt, r, lim),
        1 => g_a(fmt, r, lim),
        2 => g_d(fmt, r),
        3 => g_e(fmt, r),
        4 => g_f(fmt, r, lim),
        5 => g_g(fmt, r, lim),
        _ => {
            if fmt == Fmt::F64 {
                g_n(r)
            } else {
                g_b(fmt, r, lim)
            }
        }
    }
}

/// Is the case valid per the parser's documented preconditions?
pub fn is_valid(c: &Case) -> bool {
    c.int.iter().chain(c.frac.iter()).all(|b| b.is_ascii_digit()) && c.int.first() != Some(&b'0') && (c.frac.last() != Some(&b'0') || c.variant == "zero-significand")
}

pub fn value_of(c: &Case) -> Dec {
    Dec::from_input(&c.int, &c.frac, c.exp as i64)
}

// ---------------------------------------------------------------------------
// Exhaustive search for the *second-product* variant of Lemire's `lo == u64::MAX` condition (f64):
// the low 9 bits of the first product's high word are all ones (so the second 64x64 product is
// computed) and the corrected low word is u64::MAX, i.e. bits [64, 137) of the 192-bit product
// w * T128 are all ones:  (w * T128) mod 2^137 in [2^137 - 2^64, 2^137).  Solved exactly with the
// Euclid-like algorithm for "smallest x with l <= a*x mod m <= r".

/// Smallest x >= 0 with l <= (a * x mod m) <= r, for 0 <= l <= r < m.
fn min_mod_in_range(a: &Nat, m: &Nat, l: &Nat, r: &Nat, depth: u32) -> Option<Nat> {
    use std::cmp::Ordering::*;
    if l.is_zero() {
        return Some(Nat::zero());
    }
    let (_, a) = a.divrem(m);
    if a.is_zero() || depth > 400 {
        return None;
    }
    if a.shl(1).cmp(m) == Greater {
        // a*x mod m in [l, r]  <=>  (m-a)*x mod m in [m-r, m-l]
        return min_mod_in_range(&m.sub(&a), m, &m.sub(r), &m.sub(l), depth + 1);
    }
    // first multiple of a at or above l
    let (q, rem) = l.divrem(&a);
    let x = if rem.is_zero() { q } else { q.add_small(1) };
    if a.mul(&x).cmp(r) != Greater {
        return Some(x);
    }
    // no multiple of a inside [l, r]: find the smallest y (number of wraps) such that a multiple of a
    // falls into [l + m*y, r + m*y]:  ((-m mod a) * y) mod a in [l mod a, r mod a]
    let (_, m_mod_a) = m.divrem(&a);
    let mp = if m_mod_a.is_zero() { Nat::zero() } else { a.sub(&m_mod_a) };
    let (_, lm) = l.divrem(&a);
    let (_, rm) = r.divrem(&a);
    if lm.cmp(&rm) == Greater {
        return None; // cannot happen when no multiple of a lies in [l, r]
    }
    let y = min_mod_in_range(&mp, &a, &lm, &rm, depth + 1)?;
    let num = l.add(&m.mul(&y));
    let (q, rem) = num.divrem(&a);
    Some(if rem.is_zero() { q } else { q.add_small(1) })
}

/// Brute-force validation of `min_mod_in_range` on small moduli (part of the report, not of any check).
pub fn validate_min_mod_in_range() -> Result<u64, String> {
    let mut n = 0;
    let mut s = 12345u64;
    for _ in 0..20000 {
        s = mix(s);
        let m = 2 + s % 500;
        let a = (s >> 16) % m;
        let l = (s >> 32) % m;
        let r = l + (s >> 48) % (m - l);
        let want = (0..m).find(|x| {
            let v = a * x % m;
            l <= v && v <= r
        });
        let got = min_mod_in_range(&Nat::from_u64(a), &Nat::from_u64(m), &Nat::from_u64(l), &Nat::from_u64(r), 0).and_then(|x| x.to_u64());
        if got != want {
            return Err(format!("a={a} m={m} l={l} r={r}: got {:?} want {:?}", got, want));
        }
        n += 1;
    }
    Ok(n)
}

/// All w in [2^63, 2^64) with (w * t128) mod 2^137 >= 2^137 - 2^64.
pub fn second_product_lo_max(t128: &Nat) -> Vec<u64> {
    second_product_window(t128, 64, 64)
}

/// Generalisation used to validate the search: (w * t128) mod 2^137 >= 2^137 - 2^width, at most `max` hits.
pub fn second_product_window(t128: &Nat, width: u64, max: usize) -> Vec<u64> {
    second_product_window_mod(t128, 137, width, max)
}

/// `mod_bits` = 128 + (64 - precision): 137 for f64 (precision 55), 166 for f32 (precision 26).
pub fn second_product_window_mod(t128: &Nat, mod_bits: u64, width: u64, max: usize) -> Vec<u64> {
    use std::cmp::Ordering::*;
    let m = Nat::pow2(mod_bits);
    let lo = m.sub(&Nat::pow2(width));
    let hi = m.sub(&Nat::one());
    let mut out = Vec::new();
    let mut w0 = Nat::pow2(63);
    let end = Nat::pow2(64);
    for _ in 0..max {
        // offset: t*(w0 + x) mod m in [lo, hi]  <=>  t*x mod m in [lo - c, hi - c] (mod m), c = t*w0 mod m
        let (_, c) = t128.mul(&w0).divrem(&m);
        let sub_mod = |v: &Nat| -> Nat {
            if v.cmp(&c) != Less {
                v.sub(&c)
            } else {
                v.add(&m).sub(&c)
            }
        };
        let (l, r) = (sub_mod(&lo), sub_mod(&hi));
        let x = if l.cmp(&r) == Greater {
            Some(Nat::zero()) // the interval wraps through 0: x = 0 is already inside
        } else {
            min_mod_in_range(t128, &m, &l, &r, 0)
        };
        match x {
            None => break,
            Some(x) => {
                let w = w0.add(&x);
                if w.cmp(&end) != Less {
                    break;
                }
                out.push(w.to_u64().unwrap());
                w0 = w.add_small(1);
            }
        }
    }
    out
}

/// (w, q) pairs of the second-product variant over the whole table (f64 precision mask).
pub fn lemire_second_product_pairs() -> &'static Vec<(u64, i32)> {
    use std::sync::OnceLock;
    static T: OnceLock<Vec<(u64, i32)>> = OnceLock::new();
    T.get_or_init(|| {
        let mut out = Vec::new();
        for q in -342..=308i32 {
            let (hi, lo) = crate::props::c14::lemire_entry(q);
            let t = Nat::from_u128(((hi as u128) << 64) | lo as u128);
            for w in second_product_lo_max(&t) {
                out.push((w, q));
            }
            // f32's precision mask is 38 bits wide: bits [64, 166) all ones
            for w in second_product_window_mod(&t, 166, 64, 64) {
                out.push((w, q));
            }
        }
        out
    })
}
