//! Miri entry point (thorough tier of C08 / C12 / C13): a few hundred small
//! generated cases executed under `cargo +nightly miri run` with tree borrows,
//! so that Miri acts as a stricter sanitizer (uninitialised reads,
//! out-of-bounds, misalignment).  usage: mlv-miri <ID> <count> <seed> [start]
use mlv::fuzzglue::recipe_from_bytes;
use mlv::gen::mix;
use mlv::runner::Stats;

fn main() {
    let args: Vec<String> = std::env::args().collect();
    let id = args.get(1).map(|s| s.as_str()).unwrap_or("C13");
    let count: u64 = args.get(2).and_then(|s| s.parse().ok()).unwrap_or(50);
    let seed: u64 = args.get(3).and_then(|s| s.parse().ok()).unwrap_or(0);
    let start: u64 = args.get(4).and_then(|s| s.parse().ok()).unwrap_or(0);
    mlv::runner::install_quiet_panic_hook();
    let mut st = Stats::default();
    for i in start..start + count {
        let mut bytes = Vec::with_capacity(96);
        let mut s = mix(seed ^ (i + 1).wrapping_mul(0x9e37_79b9_7f4a_7c15));
        for _ in 0..12 {
            s = mix(s);
            bytes.extend(s.to_le_bytes());
        }
        let mut r = recipe_from_bytes(&bytes);
        println!("MIRI-CASE {id} {i}");
        let res = match id {
            "C08" => {
                // short hostile strings (Miri is slow): lengths up to 400
                mlv::props::c08::check_recipe(&r, 400, &mut st)
            }
            "C12" => {
                r.sel[7] |= 0x4000; // operations rather than observers most of the time
                mlv::props::c12::check_recipe_cfgs(&r, &[0, 2], &mut st)
            }
            _ => {
                r.k[0] %= 48;
                mlv::props::c13::check_recipe_cfgs(&r, &[0, 2], &mut st)
            }
        };
        if let Err(f) = res {
            println!("MIRI-VIOLATION {id} {i}: {}", f.message);
            std::process::exit(1);
        }
    }
    println!("MIRI-OK {id} cases={count} start={start} seed={seed}");
}
