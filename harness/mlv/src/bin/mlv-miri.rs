//! Miri entry point (thorough tier of C08 / C12 / C13): a few hundred small
//! generated cases executed under `cargo +nightly miri run` with tree borrows,
//! so that Miri acts as a stricter sanitizer (uninitialised reads,
//! out-of-bounds, misalignment).  usage: mlv-miri <ID> <count> <seed> [start]
use mlv::fuzzglue::recipe_from_bytes;
use mlv::gen::mix;
use mlv::runner::Stats;

fn main() {
    let args: Vec<String> = std::env::args().collect();
    let id = args.get(1).map(|s| s.as_str()).unwrap_or("C13");
    let count: u64 = args.get(2).and_then(|s| s.parse().ok()).unwrap_or(50);
    let seed: u64 = args.get(3).and_then(|s| s.parse().ok()).unwrap_or(0);
    let start: u64 = args.get(4).and_then(|s| s.parse().ok()).unwrap_or(0);
    mlv::runner::install_quiet_panic_hook();
    let mut st = Stats::default();
    println!("MIRI pointer width = {} bits", usize::BITS);
    if id == "L32" {
        // 32-bit-limb stage (run with --target i686-unknown-linux-gnu): the crate then uses u32 limbs, its
        // [u32; 10] copy of 5^135 and 9-digit chunks.  (1) every power constant, (2) generated boundary
        // inputs judged by the exact oracle, in the default, compact and alloc configurations.
        println!("MIRI-L32 pointer width = {} bits", usize::BITS);
        for ci in [0usize, 1, 2, 3] {
            println!("MIRI-CASE L32 tables {}", mlv::cfgs::CFGS[ci].name);
            if let Err(f) = mlv::props::c14::check_limb_dependent(&mlv::cfgs::CFGS[ci], &mut st) {
                println!("MIRI-VIOLATION L32 tables: {}", f.message);
                std::process::exit(1);
            }
        }
        let cfgs: Vec<&'static mlv::cfgs::Cfg> = vec![&mlv::cfgs::CFGS[0], &mlv::cfgs::CFGS[1], &mlv::cfgs::CFGS[2]];
        let lim = mlv::gen::Limits { long: 300, huge: 800 };
        for i in start..start + count {
            let mut bytes = Vec::with_capacity(96);
            let mut s = mix(seed ^ (i + 1).wrapping_mul(0x9e37_79b9_7f4a_7c15));
            for _ in 0..12 {
                s = mix(s);
                bytes.extend(s.to_le_bytes());
            }
            let r = recipe_from_bytes(&bytes);
            for fmt in [mlv::oracle::Fmt::F64, mlv::oracle::Fmt::F32] {
                let c = mlv::gen::mixed_no_table(fmt, &r, lim);
                println!("MIRI-CASE L32 {i} {} {} / {}", fmt.name(), c.family, c.variant);
                if let Err(f) = mlv::props::common::check_rounding(fmt, &c, &cfgs) {
                    println!("MIRI-VIOLATION L32 {i}: {}", f.message);
                    std::process::exit(1);
                }
            }
        }
        println!("MIRI-OK L32 cases={count} start={start} seed={seed} table_entries={}", st.evaluations);
        return;
    }
    if id == "U32" {
        // 32-bit-usize stage of C18 (run with --target i686-unknown-linux-gnu): mask helpers for every width and
        // the basic rounding grid for every subnormal shift, against the exact integer reference
        println!("MIRI-U32 pointer width = {} bits", usize::BITS);
        println!("MIRI-CASE U32 masks+grid");
        match mlv::props::c18::check_width_dependent(&mut st) {
            Ok(n) => println!("MIRI-OK U32 evaluations={n}"),
            Err(f) => {
                println!("MIRI-VIOLATION U32: {}", f.message);
                std::process::exit(1);
            }
        }
        return;
    }
    if id == "L32F" {
        // file-based 32-bit-limb stage (run with --target i686-unknown-linux-gnu): inputs and their expected bits
        // were produced natively (generator families + exact oracle); here they are parsed with 32-bit limbs in
        // the default, compact, alloc and no_std+compact configurations and compared
        let file = args.get(2).cloned().unwrap_or_default();
        let text = std::fs::read_to_string(&file).unwrap_or_else(|e| panic!("cannot read {file}: {e}"));
        let mut n = 0;
        for (i, line) in text.lines().enumerate() {
            let f: Vec<&str> = line.split(' ').collect();
            if f.len() != 6 {
                continue;
            }
            let fmt = if f[0] == "f32" { mlv::oracle::Fmt::F32 } else { mlv::oracle::Fmt::F64 };
            let int = if f[1] == "-" { Vec::new() } else { f[1].as_bytes().to_vec() };
            let frac = if f[2] == "-" { Vec::new() } else { f[2].as_bytes().to_vec() };
            let exp: i32 = f[3].parse().unwrap();
            let want = u64::from_str_radix(f[4].trim_start_matches("0x"), 16).unwrap();
            println!("MIRI-CASE L32F {i} {} {} ({} digits)", f[0], f[5], int.len() + frac.len());
            for ci in [0usize, 1, 2, 3, 6] {
                let cfg = &mlv::cfgs::CFGS[ci];
                match mlv::runner::catch(|| cfg.parse(fmt, &int, &frac, exp)) {
                    Ok(bits) if bits == want => {}
                    Ok(bits) => {
                        println!("MIRI-VIOLATION L32F {i}: config {} with 32-bit limbs returned {} for line {i} ({} {}.{}e{}), expected {}", cfg.name, fmt.hex(bits), f[0], mlv::gen::abbreviate(&int), mlv::gen::abbreviate(&frac), exp, fmt.hex(want));
                        std::process::exit(1);
                    }
                    Err(m) => {
                        println!("MIRI-VIOLATION L32F {i}: config {} with 32-bit limbs panicked on valid input (line {i}): {m}", cfg.name);
                        std::process::exit(1);
                    }
                }
            }
            n += 1;
        }
        println!("MIRI-OK L32F cases={n} file={file}");
        return;
    }
    if id == "C08T" {
        // targeted valid inputs (generated natively by `mlv c08t-inputs`, one per line: format, integer,
        // fraction, exponent) parsed under Miri in the stack and heap configurations: uninitialised reads and
        // out-of-bounds accesses that sanitizers cannot see
        let file = args.get(2).cloned().unwrap_or_default();
        let text = std::fs::read_to_string(&file).unwrap_or_else(|e| panic!("cannot read {file}: {e}"));
        let mut n = 0;
        for (i, line) in text.lines().enumerate() {
            let f: Vec<&str> = line.split(' ').collect();
            if f.len() != 5 {
                continue;
            }
            let fmt = if f[0] == "f32" { mlv::oracle::Fmt::F32 } else { mlv::oracle::Fmt::F64 };
            // "x<hex>" = arbitrary (hostile) bytes; anything else = the digits themselves
            let field = |s: &str| -> Vec<u8> {
                if s == "-" {
                    Vec::new()
                } else if let Some(h) = s.strip_prefix('x') {
                    (0..h.len() / 2).map(|k| u8::from_str_radix(&h[2 * k..2 * k + 2], 16).unwrap()).collect()
                } else {
                    s.as_bytes().to_vec()
                }
            };
            let (int, frac) = (field(f[1]), field(f[2]));
            let exp: i32 = f[3].parse().unwrap();
            let hostile = f[4].starts_with("hostile");
            println!("MIRI-CASE C08T {i} {} {} ({} digits)", f[0], f[4], int.len() + frac.len());
            for ci in [0usize, 2] {
                let cfg = &mlv::cfgs::CFGS[ci];
                match mlv::runner::catch(|| cfg.parse(fmt, &int, &frac, exp)) {
                    Ok(bits) => {
                        std::hint::black_box(bits);
                    }
                    Err(_) if hostile => {} // a clean panic is the documented contract for invalid bytes
                    Err(m) => {
                        println!("MIRI-VIOLATION C08T {i}: config {} panicked on valid input: {m}", cfg.name);
                        std::process::exit(1);
                    }
                }
            }
            n += 1;
        }
        println!("MIRI-OK C08T cases={n} file={file}");
        return;
    }
    for i in start..start + count {
        let mut bytes = Vec::with_capacity(96);
        let mut s = mix(seed ^ (i + 1).wrapping_mul(0x9e37_79b9_7f4a_7c15));
        for _ in 0..12 {
            s = mix(s);
            bytes.extend(s.to_le_bytes());
        }
        let mut r = recipe_from_bytes(&bytes);
        println!("MIRI-CASE {id} {i}");
        let res = match id {
            "C08" => {
                // short hostile strings (Miri is slow): lengths up to 400
                mlv::props::c08::check_recipe(&r, 400, &mut st)
            }
            "C12" => {
                r.sel[7] |= 0x4000; // operations rather than observers most of the time
                mlv::props::c12::check_recipe_cfgs(&r, &[0, 2], &mut st)
            }
            _ => {
                r.k[0] %= 48;
                mlv::props::c13::check_recipe_cfgs(&r, &[0, 2], &mut st)
            }
        };
        if let Err(f) = res {
            println!("MIRI-VIOLATION {id} {i}: {}", f.message);
            std::process::exit(1);
        }
    }
    println!("MIRI-OK {id} cases={count} start={start} seed={seed}");
}
