//! Engines: multi-threaded proptest runners and exhaustive sweeps, statistics,
//! evidence files, replay files, exit codes.

use crate::gen::{recipe_strategy, Recipe};
use proptest::test_runner::{Config, RngSeed, TestCaseError, TestError, TestRunner};
use serde_json::{json, Map, Value};
use std::cell::RefCell;
use std::collections::BTreeMap;
use std::path::PathBuf;
use std::sync::atomic::{AtomicBool, Ordering};
use std::time::Instant;

#[derive(Clone, Copy, Debug, PartialEq, Eq)]
pub enum Tier {
    Quick,
    Thorough,
}

impl Tier {
    pub fn name(self) -> &'static str {
        match self {
            Tier::Quick => "quick",
            Tier::Thorough => "thorough",
        }
    }
    pub fn pick<T>(self, q: T, t: T) -> T {
        match self {
            Tier::Quick => q,
            Tier::Thorough => t,
        }
    }
}

pub struct Ctx {
    pub id: String,
    pub tier: Tier,
    pub seed: u64,
    pub threads: usize,
    pub verif_dir: PathBuf,
    pub known: Vec<Known>,
    pub start: Instant,
    /// scale factor for case counts (VERIF_SCALE, default 1.0; used by
    /// sensitivity runs to shorten or lengthen campaigns)
    pub scale: f64,
    /// worker mode: write the evidence to this file instead of evidence/<id>.json
    pub fragment: Option<PathBuf>,
}

impl Ctx {
    /// Tier that decides the size of ENUMERATED sweeps: the dbgchk worker of a value property in the thorough tier
    /// (MLV_SWEEP_TIER=quick, set by the supervisor) sweeps the quick residue class, the release worker everything.
    pub fn sweep_tier(&self) -> Tier {
        match std::env::var("MLV_SWEEP_TIER").as_deref() {
            Ok("quick") => Tier::Quick,
            _ => self.tier,
        }
    }
    pub fn cases(&self, quick: u64, thorough: u64) -> u64 {
        let n = self.tier.pick(quick, thorough) as f64 * self.scale;
        (n as u64).max(1)
    }
}

#[derive(Clone, Debug)]
pub struct Known {
    pub property: String,
    pub key: String,
    pub text: String,
}

static KNOWN: std::sync::OnceLock<Vec<Known>> = std::sync::OnceLock::new();

/// Register the known findings for the running property: a failure whose key
/// matches one of them is counted (`excluded_known`) and the search continues.
pub fn set_known(id: &str, all: &[Known]) {
    let _ = KNOWN.set(all.iter().filter(|k| k.property == id).cloned().collect());
}

fn known_match(key: &str) -> Option<&'static Known> {
    if key.is_empty() {
        return None;
    }
    KNOWN.get().and_then(|v| v.iter().find(|k| k.key == key))
}

pub fn load_known(dir: &PathBuf) -> Vec<Known> {
    let mut out = Vec::new();
    let p = dir.join("known_findings.txt");
    if let Ok(s) = std::fs::read_to_string(p) {
        for line in s.lines() {
            let line = line.trim();
            if let Some(rest) = line.strip_prefix("known:") {
                let rest = rest.trim();
                let mut property = String::new();
                let mut key = String::new();
                for tok in rest.split_whitespace() {
                    if let Some(v) = tok.strip_prefix("property=") {
                        property = v.to_string();
                    } else if let Some(v) = tok.strip_prefix("key=") {
                        key = v.to_string();
                    }
                }
                if !property.is_empty() && !key.is_empty() {
                    out.push(Known { property, key, text: rest.to_string() });
                }
            }
        }
    }
    out
}

#[derive(Default, Clone)]
pub struct Stats {
    pub evaluations: u64,
    /// fingerprints of non-trivial cases (deduplicated at the end)
    pub nontrivial: Vec<u64>,
    pub classes: BTreeMap<String, u64>,
    pub counters: BTreeMap<String, u64>,
    pub samples: BTreeMap<String, Vec<Value>>,
    pub excluded_known: u64,
}

impl Stats {
    pub fn class(&mut self, name: &str) {
        *self.classes.entry(name.to_string()).or_insert(0) += 1;
    }
    pub fn count(&mut self, name: &str) {
        *self.counters.entry(name.to_string()).or_insert(0) += 1;
    }
    pub fn add(&mut self, name: &str, n: u64) {
        *self.counters.entry(name.to_string()).or_insert(0) += n;
    }
    pub fn sample<F: FnOnce() -> Value>(&mut self, class: &str, f: F) {
        let v = self.samples.entry(class.to_string()).or_default();
        if v.len() < 2 {
            v.push(f());
        }
    }
    pub fn merge(&mut self, o: Stats) {
        self.evaluations += o.evaluations;
        self.nontrivial.extend(o.nontrivial);
        self.excluded_known += o.excluded_known;
        for (k, v) in o.classes {
            *self.classes.entry(k).or_insert(0) += v;
        }
        for (k, v) in o.counters {
            *self.counters.entry(k).or_insert(0) += v;
        }
        for (k, v) in o.samples {
            let e = self.samples.entry(k).or_default();
            for s in v {
                if e.len() < 2 {
                    e.push(s);
                }
            }
        }
    }
    pub fn distinct_nontrivial(&mut self) -> u64 {
        self.nontrivial.sort_unstable();
        self.nontrivial.dedup();
        self.nontrivial.len() as u64
    }
}

#[derive(Clone, Debug)]
pub struct Failure {
    pub message: String,
    /// concrete, self-contained data for the replay file
    pub detail: Value,
    /// signature used to match known findings
    pub key: String,
    /// harness problem (generator/oracle inconsistency), not a violation
    pub harness: bool,
}

impl Failure {
    pub fn violation(message: String, key: String, detail: Value) -> Failure {
        Failure { message, detail, key, harness: false }
    }
    pub fn harness(message: String, detail: Value) -> Failure {
        Failure { message, detail, key: String::new(), harness: true }
    }
}

pub struct PropResult {
    pub stats: Stats,
    pub failure: Option<(Option<Recipe>, Failure)>,
}

/// Run `check` on `cases` generated recipes spread over `threads` proptest
/// runners.  Statistics are collected only until a worker's first failure;
/// the failing recipe is then shrunk by proptest.
pub fn run_recipes<C>(seed: u64, cases: u64, threads: usize, stream: u64, check: C) -> PropResult
where
    C: Fn(&Recipe, &mut Stats) -> Result<(), Failure> + Sync,
{
    // every check is a pure function of the recipe, so a failure that does not reproduce when the
    // shrunk recipe is re-run means the code under test depended on earlier calls: the first
    // observation was judged by a sound oracle and is reported as such
    run_recipes_opt(seed, cases, threads, stream, true, check)
}

/// `history_dependent`: the property itself is about independence from earlier
/// calls (C16), so a failure that does not reproduce when the shrunk recipe is
/// re-run in isolation is still a violation: the first observed failure is
/// reported (for every other property that situation is a harness error).
pub fn run_recipes_opt<C>(seed: u64, cases: u64, threads: usize, stream: u64, history_dependent: bool, check: C) -> PropResult
where
    C: Fn(&Recipe, &mut Stats) -> Result<(), Failure> + Sync,
{
    let stop = AtomicBool::new(false);
    let per = (cases + threads as u64 - 1) / threads as u64;
    let results: Vec<(Stats, Option<(Option<Recipe>, Failure)>)> = std::thread::scope(|s| {
        let handles: Vec<_> = (0..threads)
            .map(|w| {
                let check = &check;
                let stop = &stop;
                std::thread::Builder::new()
                    .stack_size(64 << 20)
                    .spawn_scoped(s, move || {
                        let mut seed_bytes = seed.wrapping_mul(0x9e37_79b9_7f4a_7c15) ^ (stream << 32) ^ (w as u64 + 1);
                        seed_bytes = crate::gen::mix(seed_bytes);
                        let config = Config {
                            cases: per.min(u32::MAX as u64) as u32,
                            failure_persistence: None,
                            rng_seed: RngSeed::Fixed(seed_bytes),
                            max_shrink_iters: 3000,
                            ..Config::default()
                        };
                        let mut runner = TestRunner::new(config);
                        let stats = RefCell::new(Stats::default());
                        let failed = std::cell::Cell::new(false);
                        let first_failure: RefCell<Option<(Recipe, Failure)>> = RefCell::new(None);
                        let trace: Option<PathBuf> = std::env::var("MLV_TRACE_DIR").ok().map(|d| PathBuf::from(d).join(format!("s{stream}-w{w}.json")));
                        let res = runner.run(&recipe_strategy(), |r| {
                            if let Some(t) = &trace {
                                let _ = std::fs::write(t, r.to_json().to_string());
                            }
                            if failed.get() {
                                // shrinking: evaluate without touching the statistics; only a failure with the
                                // SAME signature counts, so shrinking cannot drift onto a different (possibly
                                // listed) finding
                                let mut scratch = Stats::default();
                                let want_key = first_failure.borrow().as_ref().map(|(_, f)| f.key.clone()).unwrap_or_default();
                                return match check(&r, &mut scratch) {
                                    Ok(()) => Ok(()),
                                    Err(f) if f.key == want_key => Err(TestCaseError::fail(f.message)),
                                    Err(_) => Ok(()),
                                };
                            }
                            if stop.load(Ordering::Relaxed) {
                                return Ok(());
                            }
                            let mut st = stats.borrow_mut();
                            st.evaluations += 1;
                            match check(&r, &mut st) {
                                Ok(()) => Ok(()),
                                Err(f) if !f.harness && known_match(&f.key).is_some() => {
                                    // a listed finding: excluded by construction, the search continues behind it
                                    st.excluded_known += 1;
                                    st.count(&format!("known-finding:{}", f.key));
                                    Ok(())
                                }
                                Err(f) => {
                                    failed.set(true);
                                    stop.store(true, Ordering::Relaxed);
                                    let msg = f.message.clone();
                                    *first_failure.borrow_mut() = Some((r.clone(), f));
                                    Err(TestCaseError::fail(msg))
                                }
                            }
                        });
                        let failure = match res {
                            Ok(()) => None,
                            Err(TestError::Fail(_, recipe)) => {
                                let mut scratch = Stats::default();
                                let want_key = first_failure.borrow().as_ref().map(|(_, f)| f.key.clone()).unwrap_or_default();
                                match check(&recipe, &mut scratch) {
                                    Err(f) if f.key == want_key || f.harness => Some((Some(recipe), f)),
                                    Err(_) => first_failure.borrow_mut().take().map(|(r0, f0)| (Some(r0), f0)),
                                    Ok(()) => match (history_dependent, first_failure.borrow_mut().take()) {
                                        (true, Some((r0, mut f0))) => {
                                            f0.message = format!("{} [observed once; does not reproduce when re-run in isolation, i.e. the result depended on the call history]", f0.message);
                                            Some((Some(r0), f0))
                                        }
                                        _ => Some((
                                            Some(recipe),
                                            Failure::harness("shrunk recipe no longer fails (non-deterministic check?)".into(), json!({})),
                                        )),
                                    },
                                }
                            }
                            Err(TestError::Abort(reason)) => Some((None, Failure::harness(format!("proptest aborted: {reason}"), json!({})))),
                        };
                        (stats.into_inner(), failure)
                    })
                    .unwrap()
            })
            .collect();
        handles.into_iter().map(|h| h.join().unwrap()).collect()
    });
    let mut stats = Stats::default();
    let mut failure = None;
    for (s, f) in results {
        stats.merge(s);
        if failure.is_none() {
            failure = f;
        }
    }
    PropResult { stats, failure }
}

/// Exhaustive / enumerated sweep over 0..n split into chunks over threads.
pub fn run_sweep<C>(n: u64, threads: usize, check: C) -> PropResult
where
    C: Fn(u64, &mut Stats) -> Result<(), Failure> + Sync,
{
    let stop = AtomicBool::new(false);
    // a mutex rather than AtomicU64: 32-bit big-endian targets (interpreted stages) have no 64-bit atomics
    let next = std::sync::Mutex::new(0u64);
    let chunk = (n / (threads as u64 * 64)).clamp(1, 1 << 20);
    let results: Vec<(Stats, Option<Failure>)> = std::thread::scope(|s| {
        let handles: Vec<_> = (0..threads)
            .map(|w| {
                let check = &check;
                let stop = &stop;
                let next = &next;
                std::thread::Builder::new()
                    .stack_size(64 << 20)
                    .spawn_scoped(s, move || {
                        let trace: Option<PathBuf> = std::env::var("MLV_TRACE_DIR").ok().map(|d| PathBuf::from(d).join(format!("sweep{n}-w{w}.json")));
                        let mut stats = Stats::default();
                        loop {
                            if stop.load(Ordering::Relaxed) {
                                return (stats, None);
                            }
                            let lo = {
                                let mut g = next.lock().unwrap();
                                let v = *g;
                                *g = v.saturating_add(chunk);
                                v
                            };
                            if lo >= n {
                                return (stats, None);
                            }
                            let hi = (lo + chunk).min(n);
                            for i in lo..hi {
                                if let Some(t) = &trace {
                                    let _ = std::fs::write(t, format!("{{\"sweep_index\": {i}, \"sweep_size\": {n}}}"));
                                }
                                stats.evaluations += 1;
                                if let Err(f) = check(i, &mut stats) {
                                    if !f.harness && known_match(&f.key).is_some() {
                                        stats.excluded_known += 1;
                                        stats.count(&format!("known-finding:{}", f.key));
                                        continue;
                                    }
                                    stop.store(true, Ordering::Relaxed);
                                    return (stats, Some(f));
                                }
                            }
                        }
                    })
                    .unwrap()
            })
            .collect();
        handles.into_iter().map(|h| h.join().unwrap()).collect()
    });
    let mut stats = Stats::default();
    let mut failure = None;
    for (s, f) in results {
        stats.merge(s);
        if failure.is_none() {
            failure = f.map(|f| (None, f));
        }
    }
    PropResult { stats, failure }
}

pub struct Report {
    pub stats: Stats,
    pub rule: String,
    pub assumptions: Vec<String>,
    pub exhaustive: bool,
    pub extra: Map<String, Value>,
    pub violations: Vec<(Option<Recipe>, Failure)>,
    pub known_hits: Vec<String>,
    /// set when the run itself is broken (exit 2)
    pub harness_error: Option<String>,
}

impl Report {
    pub fn new(rule: &str) -> Report {
        Report {
            stats: Stats::default(),
            rule: rule.to_string(),
            assumptions: Vec::new(),
            exhaustive: false,
            extra: Map::new(),
            violations: Vec::new(),
            known_hits: Vec::new(),
            harness_error: None,
        }
    }
    pub fn absorb(&mut self, r: PropResult) {
        self.stats.merge(r.stats);
        if let Some((recipe, f)) = r.failure {
            if f.harness {
                self.harness_error.get_or_insert(format!("{} :: {}", f.message, f.detail));
            } else {
                self.violations.push((recipe, f));
            }
        }
    }
    pub fn assume(&mut self, s: &str) {
        self.assumptions.push(s.to_string());
    }
}

/// Finish a run: write evidence and replay files, print the protocol lines,
/// return the process exit code.
pub fn finish(ctx: &Ctx, mut rep: Report) -> i32 {
    let wall = ctx.start.elapsed().as_secs_f64();
    if let Some(e) = &rep.harness_error {
        eprintln!("HARNESS-ERROR property={} {}", ctx.id, e);
        println!("INCONCLUSIVE property={} harness error (exit 2): {}", ctx.id, e);
        return 2;
    }
    let mut distinct = rep.stats.distinct_nontrivial();
    if let Some(v) = rep.extra.remove("distinct_nontrivial_override").and_then(|v| v.as_u64()) {
        // enumerated sweeps: cases are distinct by construction (enumeration index)
        distinct = v;
    }
    let mut violations = 0;
    let mut lines = Vec::new();
    std::fs::create_dir_all(ctx.verif_dir.join("replays")).ok();
    for (recipe, f) in &rep.violations {
        if let Some(k) = ctx.known.iter().find(|k| k.property == ctx.id && !f.key.is_empty() && k.key == f.key) {
            lines.push(format!("KNOWN-FINDING: {}", k.text));
            continue;
        }
        violations += 1;
        let fp = crate::gen::mix(f.detail.to_string().bytes().fold(0u64, |h, b| h.wrapping_mul(131).wrapping_add(b as u64)));
        let path = ctx.verif_dir.join("replays").join(format!("{}-{:016x}.json", ctx.id, fp));
        let doc = json!({
            "property": ctx.id,
            "message": f.message,
            "key": f.key,
            "seed": ctx.seed,
            "tier": ctx.tier.name(),
            "recipe": recipe.as_ref().map(|r| r.to_json()),
            "case": f.detail,
        });
        std::fs::write(&path, serde_json::to_string_pretty(&doc).unwrap()).ok();
        eprintln!("violation: {}", f.message);
        lines.push(format!("VIOLATION property={} replay={}", ctx.id, path.display()));
    }
    for k in &rep.known_hits {
        lines.push(format!("KNOWN-FINDING: property={} {}", ctx.id, k));
    }
    for k in ctx.known.iter().filter(|k| k.property == ctx.id) {
        if rep.stats.counters.contains_key(&format!("known-finding:{}", k.key)) {
            lines.push(format!("KNOWN-FINDING: {}", k.text));
        }
    }
    let mut samples: Vec<Value> = Vec::new();
    for (class, v) in &rep.stats.samples {
        for s in v {
            if samples.len() < 60 {
                samples.push(json!({"class": class, "case": s}));
            }
        }
    }
    let mut coverage = Map::new();
    coverage.insert("evaluations".into(), json!(rep.stats.evaluations));
    coverage.insert("distinct_nontrivial".into(), json!(distinct));
    coverage.insert("rule".into(), json!(rep.rule));
    coverage.insert("samples".into(), json!(samples));
    coverage.insert("exhaustive".into(), json!(rep.exhaustive));
    coverage.insert("classes".into(), json!(rep.stats.classes));
    coverage.insert("counters".into(), json!(rep.stats.counters));
    coverage.insert("excluded_known".into(), json!(rep.stats.excluded_known));
    for (k, v) in rep.extra.iter() {
        coverage.insert(k.clone(), v.clone());
    }
    let ev = json!({
        "property_id": ctx.id,
        "tier": ctx.tier.name(),
        "seed": ctx.seed,
        "level": "exploration",
        "coverage": coverage,
        "assumptions": rep.assumptions,
        "wall_s": wall,
        "violations": violations,
    });
    let edir = ctx.verif_dir.join("evidence");
    std::fs::create_dir_all(&edir).ok();
    let epath = match &ctx.fragment {
        Some(p) => p.clone(),
        None => edir.join(format!("{}.json", ctx.id)),
    };
    if let Err(e) = std::fs::write(&epath, serde_json::to_string_pretty(&ev).unwrap()) {
        eprintln!("cannot write evidence {}: {e}", epath.display());
        return 2;
    }
    lines.dedup();
    let mut seen = std::collections::BTreeSet::new();
    lines.retain(|l| seen.insert(l.clone()));
    for l in &lines {
        println!("{l}");
    }
    println!(
        "{} property={} tier={} seed={} evaluations={} distinct_nontrivial={} violations={} wall_s={:.1}",
        if violations == 0 { "OK" } else { "FAIL" },
        ctx.id,
        ctx.tier.name(),
        ctx.seed,
        rep.stats.evaluations,
        distinct,
        violations,
        wall
    );
    if violations > 0 {
        1
    } else if rep.stats.evaluations == 0 || distinct < 2 {
        eprintln!("HARNESS-ERROR property={} vacuous run (evaluations={}, distinct_nontrivial={})", ctx.id, rep.stats.evaluations, distinct);
        2
    } else {
        0
    }
}

/// Health check: a class expected to be populated came out (near) empty.
pub fn require_counter(rep: &mut Report, name: &str, min: u64) {
    let v = rep.stats.counters.get(name).copied().unwrap_or(0);
    if v < min && rep.violations.is_empty() {
        rep.harness_error.get_or_insert(format!("health check: counter '{name}' = {v} < {min} (generator does not reach the interesting class)"));
    }
}

pub fn catch<R, F: FnOnce() -> R + std::panic::UnwindSafe>(f: F) -> Result<R, String> {
    mlc::guard::catch(f)
}

thread_local! {
    pub static LAST_PANIC_LOC: RefCell<String> = RefCell::new(String::new());
}

/// Install a quiet panic hook that records the panic location per thread.
pub fn install_quiet_panic_hook() {
    std::panic::set_hook(Box::new(|info| {
        let loc = info.location().map(|l| format!("{}:{}", l.file(), l.line())).unwrap_or_default();
        if mlc::guard::depth() == 0 {
            // a panic outside the code under test: a harness bug, never hide it
            eprintln!("HARNESS PANIC: {info}");
        }
        LAST_PANIC_LOC.with(|c| *c.borrow_mut() = loc);
    }));
}

pub fn last_panic_location() -> String {
    LAST_PANIC_LOC.with(|c| c.borrow().clone())
}
