//! Supervisor for the properties whose violations can be process-fatal
//! (aborts from UB-precondition checks, stack overflow, signals): the check
//! runs in worker processes - the `release` build and the `dbgchk` build of
//! this same program - and, where registered, libFuzzer campaigns; the
//! supervisor attributes abnormal exits to a concrete case and merges the
//! workers' evidence fragments.

use crate::runner::Ctx;
use serde_json::{json, Map, Value};
use std::path::{Path, PathBuf};
use std::process::{Command, ExitStatus, Stdio};
use std::time::{Duration, Instant};

pub const SUPERVISED: &[&str] = &["C01", "C02", "C03", "C04", "C05", "C06", "C07", "C08", "C09", "C10", "C11", "C12", "C13", "C15", "C16", "C19"];

/// Parse-level value properties that are supervised only to vary the BUILD PROFILE (a value that differs, or an
/// assertion that fires, only with debug assertions / overflow checks on): their dbgchk worker runs a quarter of
/// the thorough volume (the release worker runs all of it).
pub const VALUE_PROFILE_IDS: &[&str] = &["C01", "C02", "C03", "C05", "C06", "C07", "C09", "C10", "C11"];

/// (target, build mode) pairs: `asan` = AddressSanitizer + debug assertions,
/// `asanrel` = AddressSanitizer without debug assertions (as shipped).
pub fn fuzz_targets_for(id: &str) -> &'static [(&'static str, &'static str)] {
    match id {
        "C08" => &[("fz_bytes", "asan"), ("fz_bytes", "asanrel")],
        "C19" => &[("fz_frontend", "asan")],
        "C12" | "C13" => &[("fz_vec", "asan")],
        "C01" => &[("fz_round", "asan")],
        _ => &[],
    }
}

struct ChildResult {
    status: Option<ExitStatus>,
    timed_out: bool,
}

fn run_child(bin: &Path, args: &[String], envs: &[(&str, String)], budget: Duration) -> ChildResult {
    let mut cmd = Command::new(bin);
    cmd.args(args).stdin(Stdio::null());
    for (k, v) in envs {
        cmd.env(k, v);
    }
    let mut child = match cmd.spawn() {
        Ok(c) => c,
        Err(e) => {
            eprintln!("supervisor: cannot start {}: {e}", bin.display());
            return ChildResult { status: None, timed_out: false };
        }
    };
    let start = Instant::now();
    loop {
        match child.try_wait() {
            Ok(Some(st)) => return ChildResult { status: Some(st), timed_out: false },
            Ok(None) => {
                if start.elapsed() > budget {
                    let _ = child.kill();
                    let _ = child.wait();
                    return ChildResult { status: None, timed_out: true };
                }
                std::thread::sleep(Duration::from_millis(20));
            }
            Err(_) => return ChildResult { status: None, timed_out: false },
        }
    }
}

fn abnormal(st: &ExitStatus) -> Option<String> {
    use std::os::unix::process::ExitStatusExt;
    if let Some(sig) = st.signal() {
        return Some(format!("signal {sig}"));
    }
    match st.code() {
        Some(0) | Some(1) | Some(2) => None,
        Some(c) => Some(format!("exit code {c}")),
        None => Some("unknown".into()),
    }
}

fn is_oom_or_external_kill(st: &ExitStatus) -> bool {
    use std::os::unix::process::ExitStatusExt;
    st.signal() == Some(9)
}

/// Re-run the worker in trace mode and pin the abnormal exit on one case.
fn investigate(ctx: &Ctx, name: &str, bin: &Path, build_dir: &Path, budget: Duration) -> Result<Option<PathBuf>, String> {
    let tdir = build_dir.join(format!("trace-{}-{}", ctx.id, name));
    let _ = std::fs::remove_dir_all(&tdir);
    std::fs::create_dir_all(&tdir).map_err(|e| e.to_string())?;
    let frag = build_dir.join(format!("frag-{}-{}-trace.json", ctx.id, name));
    let args = vec![ctx.id.clone(), ctx.tier.name().to_string(), "--fragment".into(), frag.display().to_string()];
    let r = run_child(bin, &args, &[("MLV_TRACE_DIR", tdir.display().to_string())], budget);
    match &r.status {
        Some(st) if abnormal(st).is_some() => {}
        _ => return Err("the abnormal exit did not reproduce in trace mode".into()),
    }
    let mut candidates: Vec<PathBuf> = std::fs::read_dir(&tdir).map_err(|e| e.to_string())?.filter_map(|e| e.ok()).map(|e| e.path()).collect();
    candidates.sort();
    for c in candidates {
        let args = vec![ctx.id.clone(), "--replay-recipe".into(), c.display().to_string(), ctx.tier.name().to_string()];
        let r = run_child(bin, &args, &[], Duration::from_secs(600));
        if let Some(st) = &r.status {
            if let Some(how) = abnormal(st) {
                let text = std::fs::read_to_string(&c).unwrap_or_default();
                let v: Value = serde_json::from_str(&text).unwrap_or(json!({}));
                let fp = crate::gen::mix(text.bytes().fold(0u64, |h, b| h.wrapping_mul(131).wrapping_add(b as u64)));
                let out = ctx.verif_dir.join("replays").join(format!("{}-abort-{:016x}.json", ctx.id, fp));
                let doc = json!({"property": ctx.id, "message": format!("worker process ({name} build) died with {how} on this case"),
                                 "case": {"kind": "abort", "binary": name, "how": how, "trace": v}, "tier": ctx.tier.name(), "seed": ctx.seed});
                std::fs::create_dir_all(ctx.verif_dir.join("replays")).ok();
                std::fs::write(&out, serde_json::to_string_pretty(&doc).unwrap()).map_err(|e| e.to_string())?;
                return Ok(Some(out));
            }
        }
    }
    Ok(None)
}

/// Run the libFuzzer campaigns registered for this property.
/// Returns (violations, reports, harness_error).
pub fn fuzz_stage(ctx: &Ctx, build_dir: &Path, budget: Duration) -> (u64, Vec<Value>, Option<String>) {
    let mut violations = 0u64;
    let mut harness_error: Option<String> = None;
    let mut fuzz_reports: Vec<Value> = Vec::new();
    let fuzz_dir = PathBuf::from(std::env::var("MLV_FUZZ_DIR").unwrap_or_else(|_| ctx.verif_dir.join("fuzz").display().to_string()));
    if std::env::var("MLV_SKIP_FUZZ").is_ok() {
        // sensitivity runs may skip the (slow) fuzz stage; never set by the registered commands
        return (0, vec![json!({"skipped": "MLV_SKIP_FUZZ set"})], None);
    }
    for (target, mode) in fuzz_targets_for(&ctx.id) {
        let script = fuzz_dir.join("campaign.sh");
        if !script.exists() {
            harness_error.get_or_insert(format!("fuzz campaign script {} missing", script.display()));
            continue;
        }
        let report = build_dir.join(format!("fuzz-{}-{}-{}.json", ctx.id, target, mode));
        let _ = std::fs::remove_file(&report);
        let args = vec![target.to_string(), ctx.tier.name().to_string(), ctx.id.clone(), report.display().to_string(), mode.to_string()];
        let r = run_child(&script, &args, &[("VERIF_SEED", ctx.seed.to_string())], budget);
        match r.status.and_then(|s| s.code()) {
            Some(0) => {}
            Some(1) => violations += 1, // campaign.sh printed the VIOLATION line
            _ => {
                harness_error.get_or_insert(format!("fuzz campaign {target} ({mode}) was inconclusive"));
            }
        }
        if let Some(v) = read_json(&report) {
            fuzz_reports.push(v);
        }
    }
    (violations, fuzz_reports, harness_error)
}

/// Output of a (possibly parallel) interpreted run.
struct MiriOut {
    success: bool,
    stdout: String,
    stderr: String,
}

/// Run `mlv-miri <sub> <count> <seed> <start>` under Miri, splitting the case range over up to 12 concurrent
/// interpreters (the interpreter is single-threaded).  The outputs are concatenated; with a failure, the failing
/// part's output comes last so that "last MIRI-CASE" still identifies the failing case.
fn miri_parallel(harness: &Path, build_dir: &Path, target: Option<&str>, flags: &str, sub: &str, count: u64, seed: u64, per_part: u64) -> Result<MiriOut, String> {
    let parts = if count == 0 { 1 } else { (count / per_part.max(1)).clamp(1, 12) };
    let mut children = Vec::new();
    for p in 0..parts {
        let lo = count * p / parts;
        let hi = count * (p + 1) / parts;
        let mut cmd = Command::new("cargo");
        cmd.current_dir(harness).args(["+nightly", "miri", "run", "-q"]);
        if let Some(t) = target {
            cmd.args(["--target", t]);
        }
        cmd.args(["-p", "mlv", "--bin", "mlv-miri", "--"])
            .args([sub, &(hi - lo).to_string(), &seed.to_string(), &lo.to_string()])
            .env("MIRIFLAGS", flags)
            .env("CARGO_TARGET_DIR", build_dir.join("miri"))
            .env("CARGO_NET_OFFLINE", "true")
            .stdin(Stdio::null())
            .stdout(Stdio::piped())
            .stderr(Stdio::piped());
        children.push(cmd.spawn().map_err(|e| format!("cannot run Miri: {e}"))?);
    }
    let mut good = (String::new(), String::new());
    let mut bad: Option<(String, String)> = None;
    for c in children {
        let out = c.wait_with_output().map_err(|e| format!("cannot run Miri: {e}"))?;
        let (so, se) = (String::from_utf8_lossy(&out.stdout).to_string(), String::from_utf8_lossy(&out.stderr).to_string());
        if out.status.success() && so.contains("MIRI-OK") {
            good.0.push_str(&so);
            good.1.push_str(&se);
        } else if bad.is_none() {
            bad = Some((so, se));
        }
    }
    Ok(match bad {
        None => MiriOut { success: true, stdout: good.0, stderr: good.1 },
        Some((so, se)) => MiriOut { success: false, stdout: good.0 + &so, stderr: good.1 + &se },
    })
}

/// Thorough tier of C08 / C12 / C13: a few hundred small generated cases under
/// Miri with tree borrows (stricter than ASan: uninitialised reads, provenance).
/// Returns (violations, report, harness_error).
pub fn miri_stage(ctx: &Ctx, build_dir: &Path) -> (u64, Option<Value>, Option<String>) {
    if !matches!(ctx.id.as_str(), "C08" | "C12" | "C13") || (ctx.id == "C08" && ctx.tier.name() != "thorough") {
        return (0, None, None);
    }
    let harness = ctx.verif_dir.join("harness");
    // quick: a handful of generated operation histories, so that undefined behaviour which leaves the values
    // intact (reads of never-written limbs, out-of-bounds pointer arithmetic) is visible on every change
    let default_count = match (ctx.tier.name(), ctx.id.as_str()) {
        ("quick", "C12") => 24,
        ("quick", _) => 8,
        _ => 300,
    };
    let count = std::env::var("VERIF_MIRI_CASES").ok().and_then(|s| s.parse::<u64>().ok()).unwrap_or(default_count);
    let start = Instant::now();
    let out = match miri_parallel(&harness, build_dir, None, "-Zmiri-tree-borrows -Zmiri-disable-isolation", ctx.id.as_str(), count, ctx.seed, 2) {
        Ok(o) => o,
        Err(e) => return (0, None, Some(e)),
    };
    let (stdout, stderr) = (out.stdout.clone(), out.stderr.clone());
    let last_case = stdout.lines().filter(|l| l.starts_with("MIRI-CASE")).last().unwrap_or("").to_string();
    let report = json!({"engine": "Miri (tree borrows), up to 12 interpreters in parallel", "cases": count, "wall_s": start.elapsed().as_secs_f64(), "ok": out.success, "last_case": last_case});
    if out.success {
        return (0, Some(report), None);
    }
    if stderr.contains("Undefined Behavior") || stdout.contains("MIRI-VIOLATION") {
        let idx = last_case.split_whitespace().nth(2).unwrap_or("0").to_string();
        let path = ctx.verif_dir.join("replays").join(format!("{}-miri-{}-{}.json", ctx.id, ctx.seed, idx));
        std::fs::create_dir_all(ctx.verif_dir.join("replays")).ok();
        let detail: String = stderr.lines().filter(|l| l.contains("Undefined Behavior") || l.contains("-->") || l.contains("error")).take(8).collect::<Vec<_>>().join(" | ");
        let doc = json!({"property": ctx.id, "message": format!("Miri reported undefined behaviour: {detail}"),
                         "case": {"kind": "miri", "id": ctx.id, "seed": ctx.seed, "index": idx, "detail": detail}});
        let _ = std::fs::write(&path, serde_json::to_string_pretty(&doc).unwrap());
        eprintln!("miri: {detail}");
        println!("VIOLATION property={} replay={}", ctx.id, path.display());
        return (1, Some(report), None);
    }
    (0, Some(report), Some(format!("Miri run was inconclusive: {}", stderr.lines().last().unwrap_or(""))))
}

/// C08, both tiers: targeted valid inputs that drive the big-integer code through its rarely taken
/// branches (sparse-limb integers, powers of two near a boundary, Lemire's fallback, the digit limits,
/// maximal big integers) are generated natively and parsed under Miri (tree borrows) in the stack and heap
/// configurations.  Miri sees what sanitizers cannot: reads of never-written `MaybeUninit` limbs.
pub fn miri_targeted_stage(ctx: &Ctx, build_dir: &Path) -> (u64, Option<Value>, Option<String>) {
    if ctx.id != "C08" {
        return (0, None, None);
    }
    // host (dev profile), 32-bit limbs (dev profile: overflow checks on) and 32-bit limbs in the release profile
    // (overflow checks off: wrapped accumulators really reach the big-integer code)
    let variants: [(Option<&str>, bool, &str); 3] = [(None, false, "x86_64"), (Some("i686-unknown-linux-gnu"), false, "i686"), (Some("i686-unknown-linux-gnu"), true, "i686-release")];
    let mut reports = Vec::new();
    for (target, release, label) in variants {
        let (v, r, e) = miri_targeted_on(ctx, build_dir, target, release, label);
        if let Some(r) = r {
            reports.push(r);
        }
        if v > 0 || e.is_some() {
            return (v, Some(json!(reports)), e);
        }
    }
    (0, Some(json!(reports)), None)
}

fn miri_targeted_on(ctx: &Ctx, build_dir: &Path, target: Option<&str>, release: bool, label: &str) -> (u64, Option<Value>, Option<String>) {
    let count: u64 = if ctx.tier.name() == "quick" { 48 } else { 600 };
    let count = if target.is_some() { count / 2 } else { count };
    let file = build_dir.join(format!("c08t-{}-{}.txt", label, ctx.seed));
    let me = std::env::current_exe().expect("current_exe");
    let st = Command::new(&me).args(["c08t-inputs", &ctx.seed.to_string(), &count.to_string(), file.to_str().unwrap()]).status();
    if !matches!(st, Ok(s) if s.success()) {
        return (0, None, Some("cannot generate the targeted Miri inputs".into()));
    }
    let harness = ctx.verif_dir.join("harness");
    let start = Instant::now();
    // split the inputs over up to 12 concurrent interpreters
    let lines: Vec<String> = std::fs::read_to_string(&file).unwrap_or_default().lines().map(|s| s.to_string()).collect();
    let parts = ((lines.len() + 5) / 6).clamp(1, 12);
    let mut children = Vec::new();
    for p in 0..parts {
        let cfile = build_dir.join(format!("c08t-{}-{}-part{}.txt", label, ctx.seed, p));
        let text: String = lines.iter().enumerate().filter(|(i, _)| i % parts == p).map(|(_, l)| format!("{l}\n")).collect();
        if std::fs::write(&cfile, text).is_err() {
            return (0, None, Some("cannot write a targeted Miri input chunk".into()));
        }
        let mut cmd = Command::new("cargo");
        cmd.current_dir(&harness).args(["+nightly", "miri", "run", "-q"]);
        if release {
            cmd.arg("--release");
        }
        if let Some(t) = target {
            cmd.args(["--target", t]);
        }
        let c = cmd
            .args(["-p", "mlv", "--bin", "mlv-miri", "--", "C08T", cfile.to_str().unwrap()])
            .env("MIRIFLAGS", "-Zmiri-tree-borrows -Zmiri-disable-isolation -Zmiri-no-extra-rounding-error")
            .env("CARGO_TARGET_DIR", build_dir.join("miri"))
            .env("CARGO_NET_OFFLINE", "true")
            .stdin(Stdio::null())
            .stdout(Stdio::piped())
            .stderr(Stdio::piped())
            .spawn();
        match c {
            Ok(c) => children.push((cfile, c)),
            Err(e) => return (0, None, Some(format!("cannot run Miri: {e}"))),
        }
    }
    // the first failing chunk (if any) is the one reported; `file` is re-pointed at it so that the case index
    // printed by the interpreter selects the right line
    let mut all_ok = true;
    let mut failing: Option<(PathBuf, String, String)> = None;
    let mut ok_out = String::new();
    for (cfile, c) in children {
        let out = match c.wait_with_output() {
            Ok(o) => o,
            Err(e) => return (0, None, Some(format!("cannot run Miri: {e}"))),
        };
        let (so, se) = (String::from_utf8_lossy(&out.stdout).to_string(), String::from_utf8_lossy(&out.stderr).to_string());
        if out.status.success() && so.contains("MIRI-OK C08T") {
            ok_out.push_str(&so);
            let _ = std::fs::remove_file(&cfile);
        } else {
            all_ok = false;
            if failing.is_none() {
                failing = Some((cfile, so, se));
            }
        }
    }
    let (file, stdout, stderr) = match failing {
        Some((f, so, se)) => (f, so, se),
        None => (file, ok_out, String::new()),
    };
    struct St(bool);
    impl St {
        fn success(&self) -> bool {
            self.0
        }
    }
    struct Out {
        status: St,
    }
    let out = Out { status: St(all_ok) };
    let last = stdout.lines().filter(|l| l.starts_with("MIRI-CASE")).last().unwrap_or("").to_string();
    let report = json!({"engine": format!("Miri (tree borrows), {label}: targeted valid inputs + crafted hostile bytes, stack and heap configurations"), "inputs": count,
                        "families": ["G-N x3", "G-P", "G-M", "G-G f32 at MAX_DIGITS", "G-G f64 at MAX_DIGITS", "big-bigint", "G-T", "hostile: chunks wrapping to 0 mod 2^32 / 2^64", "hostile: random bytes"],
                        "wall_s": start.elapsed().as_secs_f64(), "ok": out.status.success()});
    if out.status.success() && stdout.contains("MIRI-OK C08T") {
        return (0, Some(report), None);
    }
    if stderr.contains("Undefined Behavior") || stdout.contains("MIRI-VIOLATION") {
        // keep the single failing input as the replay file
        let idx: usize = last.split_whitespace().nth(2).and_then(|s| s.parse().ok()).unwrap_or(0);
        let line = std::fs::read_to_string(&file).ok().and_then(|t| t.lines().nth(idx).map(|l| l.to_string())).unwrap_or_default();
        std::fs::create_dir_all(ctx.verif_dir.join("replays")).ok();
        let fp = crate::gen::mix(line.bytes().fold(0u64, |h, b| h.wrapping_mul(131).wrapping_add(b as u64)));
        let path = ctx.verif_dir.join("replays").join(format!("C08-miri-{}-{:016x}.json", label, fp));
        let detail: String = stderr.lines().filter(|l| l.contains("Undefined Behavior") || l.contains("-->")).take(6).collect::<Vec<_>>().join(" | ");
        let doc = json!({"property": "C08", "message": format!("Miri reported undefined behaviour on a valid input: {detail}"),
                         "case": {"kind": "miri-c08t", "input_line": line, "detail": detail, "target": target, "release": release}});
        let _ = std::fs::write(&path, serde_json::to_string_pretty(&doc).unwrap());
        eprintln!("miri (targeted): {detail}");
        println!("VIOLATION property=C08 replay={}", path.display());
        return (1, Some(report), None);
    }
    (0, Some(report), Some(format!("targeted Miri stage was inconclusive: {}", stderr.lines().last().unwrap_or(""))))
}

/// 32-bit-limb stage (C05, C14): the crate picks `Limb = u32` (with its own copy of 5^135 and 9-digit
/// chunks) from `target_pointer_width`, which no feature flag can select on this x86_64 machine; Miri can
/// interpret the i686 build.  Limb-width dependent constants + generated boundary inputs judged by the exact
/// oracle in the default, compact and alloc configurations.  Quick: constants + 4 inputs; thorough: 150.
/// Returns (violations, report, harness_error).
/// The 32-bit targets the interpreted stages run on: little-endian (all of the work) and big-endian (half of it).
pub const TARGETS_32: [(&str, u64); 2] = [("i686-unknown-linux-gnu", 1), ("powerpc-unknown-linux-gnu", 2)];

pub fn l32_stage(ctx: &Ctx, build_dir: &Path) -> (u64, Option<Value>, Option<String>) {
    let mut reports = Vec::new();
    for (target, div) in TARGETS_32 {
        let (v, r, e) = l32_stage_on(ctx, build_dir, target, div);
        if let Some(r) = r {
            reports.push(r);
        }
        if v > 0 || e.is_some() {
            return (v, Some(json!(reports)), e);
        }
    }
    if reports.is_empty() {
        (0, None, None)
    } else {
        (0, Some(json!(reports)), None)
    }
}

fn l32_stage_on(ctx: &Ctx, build_dir: &Path, target: &str, div: u64) -> (u64, Option<Value>, Option<String>) {
    if !matches!(ctx.id.as_str(), "C12" | "C13" | "C14" | "C18") {
        return (0, None, None);
    }
    // C12: the generated big-integer operations themselves, on 32-bit limbs; C18: masks + rounding grid
    let sub = match ctx.id.as_str() {
        "C18" => "U32",
        "C12" => "C12",
        "C13" => "C13",
        _ => "L32",
    };
    let harness = ctx.verif_dir.join("harness");
    let count: u64 = match (ctx.tier.name(), ctx.id.as_str()) {
        ("quick", "C12") => 16,
        ("quick", "C13") => 4,
        ("quick", _) => 4,
        (_, "C13") => std::env::var("VERIF_L32_CASES").ok().and_then(|s| s.parse().ok()).unwrap_or(40),
        _ => std::env::var("VERIF_L32_CASES").ok().and_then(|s| s.parse().ok()).unwrap_or(150),
    };
    let count = (count / div).max(1);
    let start = Instant::now();
    let per_part = if sub == "L32" { 12 } else if sub == "U32" { u64::MAX } else if sub == "C13" { 1 } else { 2 };
    let out = match miri_parallel(&harness, build_dir, Some(target), "-Zmiri-tree-borrows -Zmiri-disable-isolation -Zmiri-no-extra-rounding-error", sub, count, ctx.seed, per_part) {
        Ok(o) => o,
        Err(e) => return (0, None, Some(e)),
    };
    let (stdout, stderr) = (out.stdout.clone(), out.stderr.clone());
    let cases = stdout.lines().filter(|l| l.starts_with("MIRI-CASE")).count();
    let report = json!({"engine": format!("Miri, --target {target} (32-bit limbs), tree borrows"), "generated_inputs": count, "steps_executed": cases,
                        "wall_s": start.elapsed().as_secs_f64(), "ok": out.success,
                        "samples": stdout.lines().filter(|l| l.starts_with("MIRI-CASE")).take(6).collect::<Vec<_>>() });
    if out.success && stdout.contains(&format!("MIRI-OK {sub}")) && stdout.contains("pointer width = 32") {
        return (0, Some(report), None);
    }
    if let Some(v) = stdout.lines().find(|l| l.starts_with("MIRI-VIOLATION")) {
        let path = ctx.verif_dir.join("replays").join(format!("{}-l32-{}-{}.json", ctx.id, target.split('-').next().unwrap_or("t"), ctx.seed));
        std::fs::create_dir_all(ctx.verif_dir.join("replays")).ok();
        let doc = json!({"property": ctx.id, "message": v, "case": {"kind": "l32", "seed": ctx.seed, "count": count, "line": v, "target": target}});
        let _ = std::fs::write(&path, serde_json::to_string_pretty(&doc).unwrap());
        eprintln!("32-bit-limb stage: {v}");
        println!("VIOLATION property={} replay={}", ctx.id, path.display());
        return (1, Some(report), None);
    }
    if stderr.contains("Undefined Behavior") {
        let path = ctx.verif_dir.join("replays").join(format!("{}-l32-{}-{}.json", ctx.id, target.split('-').next().unwrap_or("t"), ctx.seed));
        let detail: String = stderr.lines().filter(|l| l.contains("Undefined Behavior") || l.contains("-->")).take(6).collect::<Vec<_>>().join(" | ");
        let doc = json!({"property": ctx.id, "message": format!("Miri (i686) reported undefined behaviour: {detail}"), "case": {"kind": "l32", "seed": ctx.seed, "count": count, "target": target}});
        let _ = std::fs::write(&path, serde_json::to_string_pretty(&doc).unwrap());
        println!("VIOLATION property={} replay={}", ctx.id, path.display());
        return (1, Some(report), None);
    }
    (0, Some(report), Some(format!("32-bit-limb Miri stage was inconclusive: {}", stderr.lines().last().unwrap_or(""))))
}

/// C01 (f64), C02 (f32), C05 (both): the crate's 32-bit-limb code (u32 limbs, 9-digit chunks, 13-power small
/// steps, the u32 hi64 helpers, the `[u32; 10]` 5^135) is dead on a 64-bit host.  Inputs weighted to the
/// big-integer path are generated natively together with their oracle verdict (`mlv l32-inputs`) and parsed by
/// Miri with --target i686-unknown-linux-gnu in four configurations.
pub fn l32_file_stage(ctx: &Ctx, build_dir: &Path) -> (u64, Option<Value>, Option<String>) {
    let mut reports = Vec::new();
    for (target, div) in TARGETS_32 {
        let (v, r, e) = l32_file_stage_on(ctx, build_dir, target, div);
        if let Some(r) = r {
            reports.push(r);
        }
        if v > 0 || e.is_some() {
            return (v, Some(json!(reports)), e);
        }
    }
    if reports.is_empty() {
        (0, None, None)
    } else {
        (0, Some(json!(reports)), None)
    }
}

fn l32_file_stage_on(ctx: &Ctx, build_dir: &Path, target: &str, div: u64) -> (u64, Option<Value>, Option<String>) {
    let which = match ctx.id.as_str() {
        "C01" => "f64",
        "C02" => "f32",
        "C05" => "both",
        _ => return (0, None, None),
    };
    if std::env::var("MLV_SKIP_L32").is_ok() {
        return (0, Some(json!({"skipped": "MLV_SKIP_L32 set"})), None);
    }
    let count: u64 = if ctx.tier.name() == "quick" { 48 } else { std::env::var("VERIF_L32_CASES").ok().and_then(|s| s.parse().ok()).unwrap_or(1200) };
    let count = (count / div).max(1);
    let tshort = target.split('-').next().unwrap_or("t");
    let file = build_dir.join(format!("l32-{}-{}-{}.txt", ctx.id, tshort, ctx.seed));
    let me = std::env::current_exe().expect("current_exe");
    let st = Command::new(&me).args(["l32-inputs", &ctx.seed.to_string(), &count.to_string(), which, file.to_str().unwrap()]).status();
    if !matches!(st, Ok(s) if s.success()) {
        return (0, None, Some("cannot generate the 32-bit-limb stage inputs".into()));
    }
    let harness = ctx.verif_dir.join("harness");
    let start = Instant::now();
    // the interpreter is single-threaded: split the inputs over up to 12 concurrent Miri processes
    let lines: Vec<String> = std::fs::read_to_string(&file).unwrap_or_default().lines().map(|s| s.to_string()).collect();
    let parts = ((lines.len() + 5) / 6).clamp(1, 12);
    let mut children = Vec::new();
    for p in 0..parts {
        let chunk: Vec<&String> = lines.iter().enumerate().filter(|(i, _)| i % parts == p).map(|(_, l)| l).collect();
        let cfile = build_dir.join(format!("l32-{}-{}-{}-part{}.txt", ctx.id, tshort, ctx.seed, p));
        let text: String = chunk.iter().map(|l| format!("{l}\n")).collect();
        if std::fs::write(&cfile, text).is_err() {
            return (0, None, Some("cannot write a 32-bit-limb stage input chunk".into()));
        }
        let child = Command::new("cargo")
            .current_dir(&harness)
            .args(["+nightly", "miri", "run", "-q", "--target", target, "-p", "mlv", "--bin", "mlv-miri", "--", "L32F", cfile.to_str().unwrap()])
            .env("MIRIFLAGS", "-Zmiri-tree-borrows -Zmiri-disable-isolation -Zmiri-no-extra-rounding-error")
            .env("CARGO_TARGET_DIR", build_dir.join("miri"))
            .env("CARGO_NET_OFFLINE", "true")
            .stdin(Stdio::null())
            .stdout(Stdio::piped())
            .stderr(Stdio::piped())
            .spawn();
        match child {
            Ok(c) => children.push((cfile, c)),
            Err(e) => return (0, None, Some(format!("cannot run Miri (i686): {e}"))),
        }
    }
    let mut cases = 0usize;
    let mut all_ok = true;
    let mut samples: Vec<String> = Vec::new();
    let mut failure: Option<(PathBuf, String, String)> = None; // chunk file, stdout, stderr
    let mut last_err = String::new();
    for (cfile, child) in children {
        let out = match child.wait_with_output() {
            Ok(o) => o,
            Err(e) => return (0, None, Some(format!("cannot run Miri (i686): {e}"))),
        };
        let stdout = String::from_utf8_lossy(&out.stdout).to_string();
        let stderr = String::from_utf8_lossy(&out.stderr).to_string();
        cases += stdout.lines().filter(|l| l.starts_with("MIRI-CASE")).count();
        samples.extend(stdout.lines().filter(|l| l.starts_with("MIRI-CASE")).take(1).map(|s| s.to_string()));
        let ok = out.status.success() && stdout.contains("MIRI-OK L32F") && stdout.contains("pointer width = 32");
        if !ok {
            all_ok = false;
            last_err = stderr.lines().last().unwrap_or("").to_string();
            if failure.is_none() && (stdout.lines().any(|l| l.starts_with("MIRI-VIOLATION")) || stderr.contains("Undefined Behavior")) {
                failure = Some((cfile.clone(), stdout, stderr));
            }
        }
        if ok {
            let _ = std::fs::remove_file(&cfile);
        }
    }
    samples.truncate(6);
    let report = json!({"engine": format!("Miri, --target {target} (32-bit limbs), tree borrows; inputs and expected bits generated natively"),
                        "inputs": count, "inputs_parsed": cases, "concurrent_interpreters": parts, "configurations": ["default", "compact", "alloc", "compact+alloc", "no_std+compact"],
                        "wall_s": start.elapsed().as_secs_f64(), "ok": all_ok, "samples": samples});
    if all_ok {
        return (0, Some(report), None);
    }
    if let Some((cfile, stdout, stderr)) = failure {
        let clines: Vec<String> = std::fs::read_to_string(&cfile).unwrap_or_default().lines().map(|s| s.to_string()).collect();
        let last = stdout.lines().filter(|l| l.starts_with("MIRI-CASE L32F")).last().and_then(|l| l.split_whitespace().nth(2)).and_then(|s| s.parse::<usize>().ok());
        let line = last.and_then(|i| clines.get(i).cloned()).unwrap_or_default();
        let message = match stdout.lines().find(|l| l.starts_with("MIRI-VIOLATION")) {
            Some(v) => v.to_string(),
            None => format!("Miri (i686) reported undefined behaviour: {}", stderr.lines().filter(|l| l.contains("Undefined Behavior") || l.contains("-->")).take(6).collect::<Vec<_>>().join(" | ")),
        };
        eprintln!("32-bit-limb stage: {message}");
        let tag = crate::gen::mix(line.bytes().fold(0u64, |h, b| h.wrapping_mul(131).wrapping_add(b as u64)));
        let path = ctx.verif_dir.join("replays").join(format!("{}-l32f-{}-{:016x}.json", ctx.id, tshort, tag));
        std::fs::create_dir_all(ctx.verif_dir.join("replays")).ok();
        let doc = json!({"property": ctx.id, "message": message, "case": {"kind": "l32f", "line": line, "target": target}});
        let _ = std::fs::write(&path, serde_json::to_string_pretty(&doc).unwrap());
        println!("VIOLATION property={} replay={}", ctx.id, path.display());
        return (1, Some(report), None);
    }
    (0, Some(report), Some(format!("32-bit-limb Miri stage was inconclusive: {last_err}")))
}

/// C19: deep inputs (hundreds of thousands of leading zeros, exponent zeros, digits ...) in every available
/// build, each in a child process on a 2 MiB thread: stack use must not grow with the input.  The `dbg0`
/// build (opt-level 0: no inlining, no tail-call elimination) is what an ordinary `cargo build` user runs.
pub fn deep_stage(ctx: &Ctx) -> (u64, Option<Value>, Option<String>) {
    if !matches!(ctx.id.as_str(), "C19" | "C04" | "C07") {
        return (0, None, None);
    }
    let lib = ctx.id != "C19";
    let names: &[&str] = if lib { &crate::props::c04::DEEP_KINDS } else { &crate::props::c19::DEEP_KINDS };
    let n: usize = match (ctx.tier.name(), lib) {
        ("quick", false) => 300_000,
        ("quick", true) => 200_000,
        (_, false) => 3_000_000,
        (_, true) => 1_000_000,
    };
    let mut bins: Vec<(&str, PathBuf)> = vec![("release", std::env::current_exe().expect("current_exe"))];
    if let Ok(p) = std::env::var("MLV_DBGCHK_BIN") {
        bins.push(("dbgchk", PathBuf::from(p)));
    }
    if let Ok(p) = std::env::var("MLV_DBG0_BIN") {
        if Path::new(&p).exists() {
            bins.push(("dbg0", PathBuf::from(p)));
        }
    }
    let start = Instant::now();
    let mut violations = 0u64;
    let mut runs = 0u64;
    let mut err: Option<String> = None;
    let kinds = names.len();
    let mut children = Vec::new();
    // the library is also fed a second, much larger size (digit-count thresholds in the millions)
    let sizes: Vec<usize> = if lib { vec![n, n * 25] } else { vec![n] };
    for (name, bin) in &bins {
        for (k, n) in (0..kinds).flat_map(|k| sizes.iter().map(move |n| (k, *n))) {
            let c = Command::new(bin).args(["deep", &k.to_string(), &n.to_string(), if lib { "lib" } else { "front" }]).stdin(Stdio::null()).stdout(Stdio::piped()).stderr(Stdio::piped()).spawn();
            match c {
                Ok(c) => children.push((*name, k, n, c)),
                Err(e) => {
                    err.get_or_insert(format!("cannot start the deep-input child ({name}): {e}"));
                }
            }
        }
    }
    for (name, k, n, c) in children {
        let out = match c.wait_with_output() {
            Ok(o) => o,
            Err(e) => {
                err.get_or_insert(format!("deep-input child: {e}"));
                continue;
            }
        };
        runs += 1;
        if out.status.success() {
            continue;
        }
        let stdout = String::from_utf8_lossy(&out.stdout).to_string();
        let how = abnormal(&out.status);
        if is_oom_or_external_kill(&out.status) {
            err.get_or_insert("a deep-input child was killed (SIGKILL)".into());
            continue;
        }
        let message = match (&how, stdout.lines().find(|l| l.starts_with("DEEP-VIOLATION"))) {
            (_, Some(l)) => l.to_string(),
            (Some(h), None) => format!("the {name} build died with {h} on a deep input ({}; {} bytes): stack use grows with the input", names[k], n),
            (None, None) => {
                err.get_or_insert(format!("deep-input child ({name}, kind {k}) exited with {:?} without a verdict", out.status.code()));
                continue;
            }
        };
        violations += 1;
        eprintln!("deep-input stage: {message}");
        let path = ctx.verif_dir.join("replays").join(format!("{}-deep-{}-{}-{}.json", ctx.id, name, k, n));
        std::fs::create_dir_all(ctx.verif_dir.join("replays")).ok();
        let doc = json!({"property": ctx.id, "message": message, "case": {"kind": "deep", "binary": name, "input_kind": k, "len": n, "description": names[k]}});
        let _ = std::fs::write(&path, serde_json::to_string_pretty(&doc).unwrap());
        println!("VIOLATION property={} replay={}", ctx.id, path.display());
    }
    let report = json!({"inputs": names, "bytes_each": n, "builds": bins.iter().map(|(n, _)| *n).collect::<Vec<_>>(), "child_processes": runs,
                        "thread_stack_bytes": 2u64 << 20, "wall_s": start.elapsed().as_secs_f64(), "violations": violations});
    (violations, Some(report), if violations == 0 { err } else { None })
}

/// For properties that are not process-supervised: run the registered fuzz
/// campaigns after the in-process check and merge them into the evidence file.
pub fn fuzz_poststep(ctx: &Ctx, code: i32) -> i32 {
    let wants_l32 = matches!(ctx.id.as_str(), "C01" | "C02" | "C05" | "C07" | "C14" | "C18");
    if (fuzz_targets_for(&ctx.id).is_empty() && !wants_l32) || code != 0 {
        return code;
    }
    let build_dir = PathBuf::from(std::env::var("MLV_BUILD_DIR").unwrap_or_else(|_| ctx.verif_dir.join("build").display().to_string()));
    let budget = Duration::from_secs(if ctx.tier.name() == "quick" { 1800 } else { 6 * 3600 });
    let (mut violations, reports, mut err) = fuzz_stage(ctx, &build_dir, budget);
    let (lv, l32_report, lerr) = l32_stage(ctx, &build_dir);
    violations += lv;
    if err.is_none() {
        err = lerr;
    }
    let (fv, l32f_report, ferr) = l32_file_stage(ctx, &build_dir);
    violations += fv;
    if err.is_none() {
        err = ferr;
    }
    let (dv, deep_report, derr) = deep_stage(ctx);
    violations += dv;
    if err.is_none() {
        err = derr;
    }
    let epath = ctx.verif_dir.join("evidence").join(format!("{}.json", ctx.id));
    if let Some(mut ev) = read_json(&epath) {
        let execs: u64 = reports.iter().map(|r| r["executions"].as_u64().unwrap_or(0)).sum();
        let base = ev["coverage"]["evaluations"].as_u64().unwrap_or(0);
        ev["coverage"]["evaluations"] = json!(base + execs);
        ev["coverage"]["fuzz"] = json!(reports);
        if let Some(l) = &l32f_report {
            ev["coverage"]["limb32_file_stage"] = l.clone();
        }
        if let Some(l) = &deep_report {
            ev["coverage"]["deep_input_stage"] = l.clone();
        }
        if let Some(l) = &l32_report {
            ev["coverage"]["limb32_stage"] = l.clone();
        }
        ev["coverage"]["note"] = json!("evaluations = generated proptest / enumerated cases + libFuzzer executions (second engine); distinct_nontrivial counts the former only");
        ev["violations"] = json!(ev["violations"].as_u64().unwrap_or(0) + violations);
        ev["wall_s"] = json!(ctx.start.elapsed().as_secs_f64());
        let _ = std::fs::write(&epath, serde_json::to_string_pretty(&ev).unwrap());
    }
    if violations > 0 {
        println!("FAIL property={} fuzz stage found {} violation(s)", ctx.id, violations);
        return 1;
    }
    if let Some(e) = err {
        eprintln!("HARNESS-ERROR property={} {}", ctx.id, e);
        println!("INCONCLUSIVE property={} {} (exit 2)", ctx.id, e);
        return 2;
    }
    println!("OK property={} post-stages: {} fuzz campaign(s){}, no violation", ctx.id, reports.len(), if l32_report.is_some() || l32f_report.is_some() { " + 32-bit-limb Miri stage" } else { "" });
    0
}

fn read_json(p: &Path) -> Option<Value> {
    serde_json::from_str(&std::fs::read_to_string(p).ok()?).ok()
}

pub fn run(ctx: &Ctx) -> i32 {
    let build_dir = PathBuf::from(std::env::var("MLV_BUILD_DIR").unwrap_or_else(|_| ctx.verif_dir.join("build").display().to_string()));
    std::fs::create_dir_all(&build_dir).ok();
    let me = std::env::current_exe().expect("current_exe");
    let dbg = std::env::var("MLV_DBGCHK_BIN").map(PathBuf::from).unwrap_or_else(|_| build_dir.join("harness/dbgchk/mlv"));
    if !dbg.exists() {
        eprintln!("HARNESS-ERROR property={}: dbgchk binary {} missing", ctx.id, dbg.display());
        println!("INCONCLUSIVE property={} (exit 2)", ctx.id);
        return 2;
    }
    let budget = Duration::from_secs(if ctx.tier.name() == "quick" { 1800 } else { 6 * 3600 });
    let mut violations = 0u64;
    let mut harness_error: Option<String> = None;
    let mut frags: Vec<(String, Value)> = Vec::new();
    for (name, bin) in [("release", me.clone()), ("dbgchk", dbg.clone())] {
        let frag = build_dir.join(format!("frag-{}-{}.json", ctx.id, name));
        let _ = std::fs::remove_file(&frag);
        let args = vec![ctx.id.clone(), ctx.tier.name().to_string(), "--fragment".into(), frag.display().to_string()];
        let mut envs: Vec<(&str, String)> = Vec::new();
        if name == "dbgchk" && ctx.tier.name() == "thorough" && VALUE_PROFILE_IDS.contains(&ctx.id.as_str()) {
            envs.push(("VERIF_SCALE", format!("{}", ctx.scale * 0.25)));
            envs.push(("MLV_SWEEP_TIER", "quick".to_string()));
        }
        let r = run_child(&bin, &args, &envs, budget);
        if r.timed_out {
            harness_error.get_or_insert(format!("{name} worker exceeded its time budget (inconclusive)"));
            continue;
        }
        let st = match r.status {
            Some(st) => st,
            None => {
                harness_error.get_or_insert(format!("{name} worker could not be run"));
                continue;
            }
        };
        if let Some(how) = abnormal(&st) {
            if is_oom_or_external_kill(&st) {
                harness_error.get_or_insert(format!("{name} worker was killed ({how}); inconclusive"));
                continue;
            }
            eprintln!("supervisor: {name} worker died abnormally ({how}); re-running in trace mode to attribute it");
            match investigate(ctx, name, &bin, &build_dir, budget) {
                Ok(Some(path)) => {
                    println!("VIOLATION property={} replay={}", ctx.id, path.display());
                    violations += 1;
                }
                Ok(None) => {
                    harness_error.get_or_insert(format!("{name} worker died ({how}) but no single traced case reproduces it; inconclusive"));
                }
                Err(e) => {
                    harness_error.get_or_insert(format!("{name} worker died ({how}); {e}"));
                }
            }
            continue;
        }
        match st.code() {
            Some(2) => {
                harness_error.get_or_insert(format!("{name} worker reported a harness error"));
            }
            Some(c) => {
                if let Some(v) = read_json(&frag) {
                    violations += v["violations"].as_u64().unwrap_or(0);
                    frags.push((name.to_string(), v));
                } else if c == 0 {
                    harness_error.get_or_insert(format!("{name} worker wrote no evidence fragment"));
                }
                if c == 1 && frags.last().map_or(true, |(n, _)| n != name) {
                    violations += 1;
                }
            }
            None => {}
        }
    }
    // coverage-guided fuzzing stage
    let (fv, fuzz_reports, ferr) = fuzz_stage(ctx, &build_dir, budget);
    violations += fv;
    if let Some(e) = ferr {
        harness_error.get_or_insert(e);
    }
    let (mv, miri_report, merr) = miri_stage(ctx, &build_dir);
    violations += mv;
    if let Some(e) = merr {
        harness_error.get_or_insert(e);
    }
    let (tv, miri_targeted_report, terr) = miri_targeted_stage(ctx, &build_dir);
    violations += tv;
    if let Some(e) = terr {
        harness_error.get_or_insert(e);
    }
    let (lv, l32_report, lerr) = l32_stage(ctx, &build_dir);
    violations += lv;
    if let Some(e) = lerr {
        harness_error.get_or_insert(e);
    }
    let (dv, deep_report, derr) = deep_stage(ctx);
    violations += dv;
    if let Some(e) = derr {
        harness_error.get_or_insert(e);
    }
    let (l32fv, l32f_report, l32ferr) = l32_file_stage(ctx, &build_dir);
    violations += l32fv;
    if let Some(e) = l32ferr {
        harness_error.get_or_insert(e);
    }
    if violations == 0 {
        if let Some(e) = harness_error {
            eprintln!("HARNESS-ERROR property={} {}", ctx.id, e);
            println!("INCONCLUSIVE property={} {} (exit 2)", ctx.id, e);
            return 2;
        }
    }
    // merge
    let mut coverage = Map::new();
    let mut evaluations = 0u64;
    let mut distinct = 0u64;
    let mut builds = Map::new();
    let mut assumptions: Vec<Value> = Vec::new();
    for (name, v) in &frags {
        let c = &v["coverage"];
        evaluations += c["evaluations"].as_u64().unwrap_or(0);
        distinct = distinct.max(c["distinct_nontrivial"].as_u64().unwrap_or(0));
        if coverage.is_empty() {
            if let Some(m) = c.as_object() {
                for (k, val) in m {
                    if k != "counters" && k != "classes" {
                        coverage.insert(k.clone(), val.clone());
                    }
                }
            }
            if let Some(a) = v["assumptions"].as_array() {
                assumptions = a.clone();
            }
        }
        builds.insert(name.clone(), json!({"evaluations": c["evaluations"], "distinct_nontrivial": c["distinct_nontrivial"], "classes": c["classes"], "counters": c["counters"], "wall_s": v["wall_s"], "violations": v["violations"]}));
    }
    for f in &fuzz_reports {
        evaluations += f["executions"].as_u64().unwrap_or(0);
    }
    coverage.insert("evaluations".into(), json!(evaluations));
    coverage.insert("distinct_nontrivial".into(), json!(distinct));
    coverage.insert("builds".into(), Value::Object(builds));
    coverage.insert("fuzz".into(), json!(fuzz_reports));
    if let Some(m) = miri_report {
        coverage.insert("miri".into(), m);
    }
    if let Some(m) = miri_targeted_report {
        coverage.insert("miri_targeted".into(), m);
    }
    if let Some(m) = l32_report {
        coverage.insert("limb32_stage".into(), m);
    }
    if let Some(m) = deep_report {
        coverage.insert("deep_input_stage".into(), m);
    }
    if let Some(m) = l32f_report {
        coverage.insert("limb32_file_stage".into(), m);
    }
    coverage.insert(
        "note".into(),
        json!("evaluations = proptest/sweep cases executed in the release build + in the dbgchk build + libFuzzer executions; distinct_nontrivial = the larger of the two builds' measured counts (both builds run the same generated cases; fuzz executions are not counted as distinct)"),
    );
    if !coverage.contains_key("rule") {
        coverage.insert("rule".into(), json!("see builds"));
    }
    if !coverage.contains_key("samples") {
        coverage.insert("samples".into(), json!([{"note": "no fragment produced samples"}]));
    }
    let ev = json!({
        "property_id": ctx.id, "tier": ctx.tier.name(), "seed": ctx.seed, "level": "exploration",
        "coverage": coverage, "assumptions": assumptions, "wall_s": ctx.start.elapsed().as_secs_f64(), "violations": violations,
    });
    let edir = ctx.verif_dir.join("evidence");
    std::fs::create_dir_all(&edir).ok();
    if std::fs::write(edir.join(format!("{}.json", ctx.id)), serde_json::to_string_pretty(&ev).unwrap()).is_err() {
        return 2;
    }
    println!(
        "{} property={} tier={} seed={} evaluations={} distinct_nontrivial={} violations={} wall_s={:.1} (supervisor: release + dbgchk workers{})",
        if violations == 0 { "OK" } else { "FAIL" }, ctx.id, ctx.tier.name(), ctx.seed, evaluations, distinct, violations, ctx.start.elapsed().as_secs_f64(),
        if fuzz_reports.is_empty() { "".to_string() } else { format!(" + {} fuzz campaign(s)", fuzz_reports.len()) }
    );
    if violations > 0 {
        1
    } else if distinct < 2 {
        2
    } else {
        0
    }
}
