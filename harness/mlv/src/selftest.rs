//! Harness self-test, run at the start of every check.  A failure here is
//! exit 2 ("harness broken"), never a VIOLATION.

use crate::nat::{self, Nat};
use crate::oracle::{self, Dec, Fmt, Verdict};
use std::cmp::Ordering;
use std::path::PathBuf;

/// Minimal scanner for the golden files' literals: digits [. digits] [e[+-]digits]
pub fn split_literal(s: &str) -> Option<(Vec<u8>, Vec<u8>, i64)> {
    let b = s.as_bytes();
    let mut i = 0;
    if i < b.len() && b[i] == b'+' {
        i += 1;
    }
    let st = i;
    while i < b.len() && b[i].is_ascii_digit() {
        i += 1;
    }
    let int = b[st..i].to_vec();
    let mut frac = Vec::new();
    if i < b.len() && b[i] == b'.' {
        i += 1;
        let st = i;
        while i < b.len() && b[i].is_ascii_digit() {
            i += 1;
        }
        frac = b[st..i].to_vec();
    }
    let mut exp = 0i64;
    if i < b.len() && (b[i] == b'e' || b[i] == b'E') {
        i += 1;
        let mut neg = false;
        if i < b.len() && (b[i] == b'+' || b[i] == b'-') {
            neg = b[i] == b'-';
            i += 1;
        }
        let st = i;
        while i < b.len() && b[i].is_ascii_digit() {
            i += 1;
        }
        if st == i {
            return None;
        }
        let mut v: i64 = 0;
        for &c in &b[st..i] {
            v = (v * 10 + (c - b'0') as i64).min(1 << 40);
        }
        exp = if neg { -v } else { v };
    }
    if i != b.len() || (int.is_empty() && frac.is_empty()) {
        return None;
    }
    Some((int, frac, exp))
}

/// Arithmetic formulation of the comparison, independent of the digit-compare
/// one: sign of  S*10^E - N*2^K  by cross-multiplication with Nat.
fn cmp_arith(int: &[u8], frac: &[u8], exp: i64, m: u128, e2: i64) -> Ordering {
    let mut digits: Vec<u8> = int.iter().chain(frac.iter()).map(|c| c - b'0').collect();
    let e10 = exp - frac.len() as i64;
    while digits.first() == Some(&0) {
        digits.remove(0);
    }
    let s = Nat::from_digits(&digits);
    // s * 10^e10  vs  m * 2^e2
    let mut lhs = s;
    let mut rhs = Nat::from_u128(m);
    if e10 >= 0 {
        lhs = lhs.mul(&Nat::pow_small(10, e10 as u32));
    } else {
        rhs = rhs.mul(&Nat::pow_small(10, (-e10) as u32));
    }
    if e2 >= 0 {
        rhs = rhs.shl(e2 as u64);
    } else {
        lhs = lhs.shl((-e2) as u64);
    }
    lhs.cmp(&rhs)
}

pub fn run(seed: u64, verif_dir: &PathBuf) -> Result<u64, String> {
    let mut n = nat::self_test(seed)?;

    // (a) golden vectors: the oracle accepts the recorded bits, rejects bits +- 1
    let path = verif_dir.join("corpus").join("golden.txt");
    let text = std::fs::read_to_string(&path).map_err(|e| format!("cannot read {}: {e}", path.display()))?;
    let lines: Vec<&str> = text.lines().collect();
    if lines.len() < 2000 {
        return Err("golden corpus too small".into());
    }
    let stride = 7usize;
    let offset = (seed % stride as u64) as usize;
    let mut used = 0;
    for (idx, line) in lines.iter().enumerate() {
        if idx % stride != offset {
            continue;
        }
        let mut it = line.split_whitespace();
        let (_h16, h32, h64, lit) = match (it.next(), it.next(), it.next(), it.next()) {
            (Some(a), Some(b), Some(c), Some(d)) => (a, b, c, d),
            _ => continue,
        };
        let (int, frac, exp) = match split_literal(lit) {
            Some(x) => x,
            None => continue,
        };
        if int.len() + frac.len() > 400 {
            continue;
        }
        let b32 = u64::from_str_radix(h32, 16).map_err(|e| e.to_string())?;
        let b64 = u64::from_str_radix(h64, 16).map_err(|e| e.to_string())?;
        for (fmt, bits) in [(Fmt::F32, b32), (Fmt::F64, b64)] {
            if oracle::judge(fmt, bits, &int, &frac, exp) != Verdict::Correct {
                return Err(format!("oracle rejects golden vector {lit} -> {}", fmt.hex(bits)));
            }
            if bits < fmt.inf_bits() && oracle::judge(fmt, bits + 1, &int, &frac, exp) == Verdict::Correct {
                return Err(format!("oracle accepts golden+1 for {lit}"));
            }
            if bits > 0 && oracle::judge(fmt, bits - 1, &int, &frac, exp) == Verdict::Correct {
                return Err(format!("oracle accepts golden-1 for {lit}"));
            }
            n += 3;
        }
        if used % 16 == 0 {
            for (fmt, bits) in [(Fmt::F32, b32), (Fmt::F64, b64)] {
                if oracle::expected(fmt, &int, &frac, exp) != bits || oracle::expected_fast(fmt, &int, &frac, exp) != bits {
                    return Err(format!("oracle::expected disagrees with golden vector {lit}"));
                }
                n += 2;
            }
        }
        used += 1;
    }
    if used < 2000 {
        return Err(format!("only {used} golden vectors usable"));
    }

    // (b) agreement with std on generated inputs, (c) the two comparison formulations agree
    let mut s = seed ^ 0x5bd1_e995;
    let mut next = move || {
        s = crate::gen::mix(s);
        s
    };
    for i in 0..3000u32 {
        let li = (next() % 22) as usize;
        let lf = (next() % 22) as usize;
        let mut int: Vec<u8> = (0..li).map(|_| b'0' + (next() % 10) as u8).collect();
        let frac: Vec<u8> = (0..lf).map(|_| b'0' + (next() % 10) as u8).collect();
        if let Some(f) = int.first_mut() {
            if *f == b'0' {
                *f = b'3';
            }
        }
        let exp = (next() % 700) as i64 - 350;
        let lit = format!("{}.{}e{}", String::from_utf8_lossy(&int), String::from_utf8_lossy(&frac), exp);
        let lit = if int.is_empty() && frac.is_empty() { "0".to_string() } else { lit };
        let s64 = lit.parse::<f64>().map_err(|e| format!("std parse {lit}: {e}"))?.to_bits();
        let s32 = lit.parse::<f32>().map_err(|e| format!("std parse {lit}: {e}"))?.to_bits() as u64;
        for (fmt, bits) in [(Fmt::F64, s64), (Fmt::F32, s32)] {
            if oracle::judge(fmt, bits, &int, &frac, exp) != Verdict::Correct {
                return Err(format!("oracle rejects std's result for {lit} as {}", fmt.name()));
            }
            n += 1;
            if i % 8 == 0 && bits < fmt.inf_bits() {
                // digit-compare vs arithmetic formulation on the upper boundary
                let (m, e) = fmt.decode(bits);
                let a = cmp_arith(&int, &frac, exp, 2 * m as u128 + 1, e - 1);
                let d = oracle::cmp_input(&int, &frac, exp, &oracle::hi(fmt, bits));
                let v = Dec::from_input(&int, &frac, exp).cmp(&oracle::hi(fmt, bits));
                if a != d || a != v {
                    return Err(format!("comparison formulations disagree on {lit}"));
                }
                n += 1;
            }
        }
    }
    // exact expansions and boundaries of a few known floats
    let one = 1.0f64.to_bits();
    if oracle::exact(Fmt::F64, one).digits != vec![1] || oracle::exact(Fmt::F64, one).point != 1 {
        return Err("exact(1.0)".into());
    }
    let h = oracle::hi(Fmt::F32, (16777216.0f32).to_bits() as u64);
    if h.digits != vec![1, 6, 7, 7, 7, 2, 1, 7] || h.point != 8 {
        return Err("hi(2^24)".into());
    }
    let tiny = oracle::hi(Fmt::F64, 0);
    if tiny.digits.len() != 752 || tiny.point != -323 {
        return Err(format!("hi(0) has {} digits, point {}", tiny.digits.len(), tiny.point));
    }
    Ok(n)
}

pub fn second_product_report() {
    let t0 = std::time::Instant::now();
    // validate the solver on small moduli against brute force first
    println!("min_mod_in_range vs brute force: {:?}", crate::gen::validate_min_mod_in_range());
    // and on the real modulus with a wider window, where hits are expected: 2^63 * 2^(width-137) per q
    for width in [80u64, 76, 72] {
        let (hi, lo) = crate::props::c14::lemire_entry(-100);
        let t = crate::nat::Nat::from_u128(((hi as u128) << 64) | lo as u128);
        let hits = crate::gen::second_product_window(&t, width, 100000);
        let ok = hits.iter().all(|&w| {
            let p = t.mul_small(w);
            let (_, r) = p.divrem(&crate::nat::Nat::pow2(137));
            r.cmp(&crate::nat::Nat::pow2(137).sub(&crate::nat::Nat::pow2(width))) != std::cmp::Ordering::Less
        });
        println!("q=-100 window 2^{width}: {} hits (expected about {:.1}), all verified: {ok}", hits.len(), (2f64).powi(63 + width as i32 - 137));
    }
    let pairs = crate::gen::lemire_second_product_pairs();
    println!("second-product lo==MAX pairs over all 651 q: {} (search took {:.1}s)", pairs.len(), t0.elapsed().as_secs_f64());
    for (w, q) in pairs.iter().take(20) {
        println!("  w={w} q={q}");
    }
}

pub fn hard_table_report() {
    let t0 = std::time::Instant::now();
    let t = crate::gen::hard_table();
    println!("hard table: f32 {} entries, f64 {} entries, built in {:.2}s", t.f32.len(), t.f64.len(), t0.elapsed().as_secs_f64());
    for (name, tab) in [("f32", &t.f32), ("f64", &t.f64)] {
        let mut hist = std::collections::BTreeMap::new();
        for h in tab.iter() {
            *hist.entry((h.closeness / 8) * 8).or_insert(0u64) += 1;
        }
        println!("{name} closeness histogram (log2, bucketed by 8): {:?}", hist);
        let qs: std::collections::BTreeSet<i32> = tab.iter().map(|h| h.q).collect();
        println!("{name} distinct q: {} ({}..{})", qs.len(), qs.iter().next().unwrap(), qs.iter().last().unwrap());
        println!("{name} sample: {:?}", &tab[tab.len() / 2..tab.len() / 2 + 3]);
    }
}

/// Seed corpora for the libFuzzer targets, derived from the generator families with fixed recipes:
/// valid inputs that load the big-integer code (boundaries, long tails, sparse-limb integers, the f32
/// 114-digit limit) for fz_bytes, literals for fz_frontend, recipes for fz_round / fz_vec.
pub fn write_fuzz_seeds(dir: &PathBuf) {
    use crate::gen::{mix, Limits, Recipe};
    let recipe = |i: u64| -> Recipe {
        let s = mix(0x5eed ^ i.wrapping_mul(0x9e37_79b9_7f4a_7c15));
        Recipe {
            sel: [(s >> 3) as u16, (s >> 11) as u16, (s >> 19) as u16, (s >> 27) as u16, (s >> 35) as u16, (s >> 43) as u16, (s >> 5) as u16, (s >> 13) as u16],
            a: mix(s ^ 1),
            b: mix(s ^ 2),
            k: [(s >> 7) as u32, (s >> 17) as u32, (mix(s) >> 9) as u32, (mix(s) >> 21) as u32],
            digits: (0..40).map(|j| (mix(s ^ (j + 9)) % 10) as u8).collect(),
        }
    };
    let lim = Limits { long: 900, huge: 1500 };
    let put = |target: &str, name: String, data: Vec<u8>| {
        let d = dir.join(target);
        std::fs::create_dir_all(&d).unwrap();
        std::fs::write(d.join(name), data).unwrap();
    };
    let mut n = 0;
    for i in 0..400u64 {
        let r = recipe(i);
        let c = crate::props::c04::case_of(&r, lim);
        if c.sig_len() > 1400 || c.sig_len() < 20 {
            continue;
        }
        // fz_bytes layout: [selector, (split << 3) | exponent mode 5, exponent as 4 LE bytes, body]
        let total = c.int.len() + c.frac.len();
        let split = if total == 0 { 0 } else { (c.int.len() * 31 + total - 1) / total };
        let mut data = vec![(i & 1) as u8, ((split.min(31) as u8) << 3) | 5];
        data.extend(c.exp.to_le_bytes());
        data.extend(&c.int);
        data.extend(&c.frac);
        // only keep seeds whose decoded split reproduces the intended one
        let decoded = (data[1] as usize >> 3) * total / 31;
        if decoded == c.int.len() {
            put("fz_bytes", format!("valid{:03}", n), data);
            n += 1;
        }
        if n >= 48 {
            break;
        }
    }
    for i in 0..40u64 {
        let r = recipe(1000 + i);
        let (lit, _) = crate::props::c19::g_j(&r, Limits { long: 300, huge: 400 });
        if lit.len() <= 480 {
            put("fz_frontend", format!("gen{:02}", i), lit);
        }
        put("fz_round", format!("gen{:02}", i), crate::fuzzglue::recipe_to_bytes(&recipe(2000 + i)));
        put("fz_vec", format!("gen{:02}", i), crate::fuzzglue::recipe_to_bytes(&recipe(3000 + i)));
    }
    println!("fuzz seeds written under {}", dir.display());
}

/// Inputs for the targeted Miri stage of C08 (generated natively; Miri only parses them).
pub fn write_c08t_inputs(seed: u64, count: u64, file: &PathBuf) {
    use crate::gen::{mix, Limits};
    use crate::oracle::Fmt;
    let fams: [&str; 12] = ["G-N", "G-N", "G-N", "G-P", "G-M", "G-G-f32", "G-G-f64", "big-bigint", "hostile-wrap32", "hostile-wrap64", "hostile-bytes", "G-T"];
    let lim = Limits { long: 800, huge: 800 };
    let mut out = String::new();
    for i in 0..count {
        let mut bytes = Vec::with_capacity(96);
        let mut s = mix(seed ^ (i + 1).wrapping_mul(0x9e37_79b9_7f4a_7c15));
        for _ in 0..12 {
            s = mix(s);
            bytes.extend(s.to_le_bytes());
        }
        let mut r = crate::fuzzglue::recipe_from_bytes(&bytes);
        let fam = fams[(i % 12) as usize];
        let (fmt, c) = match fam {
            "G-N" => {
                r.k[1] = 5 + (r.k[1] % 3); // 6..8 zero limbs
                (Fmt::F64, crate::gen::g_n(&r))
            }
            "G-P" => (Fmt::F64, crate::gen::g_p(Fmt::F64, &r)),
            "G-M" => (Fmt::F64, crate::gen::g_m(Fmt::F64, &r)),
            "G-G-f32" => {
                r.sel[3] = 0x4000; // deciding digit at MAX_DIGITS-2 .. +3
                (Fmt::F32, crate::gen::g_g(Fmt::F32, &r, lim))
            }
            "G-G-f64" => {
                r.sel[3] = 0x4000;
                (Fmt::F64, crate::gen::g_g(Fmt::F64, &r, lim))
            }
            "G-T" => (Fmt::F64, crate::gen::g_t(Fmt::F64, &r)),
            "hostile-wrap32" | "hostile-wrap64" | "hostile-bytes" => {
                // invalid bytes.  wrapNN: every chunk the slow path accumulates (9 bytes on 32-bit limbs, 19 on
                // 64-bit limbs) has "digit" values c - b'0' in 0..=255 that sum, with their powers of ten, to a
                // multiple of 2^NN - so with overflow checks off the big integer's chunks wrap to zero while the
                // 19-byte u64 significand does not
                let fmt = if r.sel[7] & 1 == 0 { Fmt::F64 } else { Fmt::F32 };
                let bytes: Vec<u8> = if fam == "hostile-bytes" {
                    (0..(20 + r.k[0] % 200)).map(|j| (mix(r.a ^ j as u64) >> 13) as u8).collect()
                } else {
                    let (chunk, modulus): (usize, u128) = if fam == "hostile-wrap32" { (9, 1u128 << 32) } else { (19, 1u128 << 64) };
                    let mut v = Vec::new();
                    let chunks = 3 + (r.k[0] % 4) as usize;
                    for c in 0..chunks {
                        let k = 1 + (mix(r.b ^ c as u64) % 5) as u128;
                        let mut t = k * modulus; // written with `chunk` oversized digits
                        let mut ds = vec![0u32; chunk];
                        for pos in (0..chunk).rev() {
                            ds[pos] = (t % 10) as u32;
                            t /= 10;
                        }
                        // fold what is left above the top position into the leading "digit"
                        ds[0] += (t * 10) as u32;
                        // an all-'0' chunk also wraps to zero: after the first chunk, or (so that the 19-byte
                        // significand stays tiny and the moderate path declines) everywhere before the last one
                        let zero_chunk = match r.k[1] % 3 {
                            0 => c > 0,
                            1 => c + 1 < chunks,
                            _ => false,
                        };
                        if ds[0] > 255 || zero_chunk {
                            ds = vec![0; chunk];
                        }
                        v.extend(ds.iter().map(|d| b'0'.wrapping_add(*d as u8)));
                    }
                    v
                };
                let cut = (r.k[2] as usize) % (bytes.len() + 1);
                let hex = |d: &[u8]| if d.is_empty() { "-".to_string() } else { format!("x{}", d.iter().map(|b| format!("{:02x}", b)).collect::<String>()) };
                let exp = (r.k[3] % 700) as i32 - 350;
                out.push_str(&format!("{} {} {} {} {}\n", fmt.name(), hex(&bytes[..cut]), hex(&bytes[cut..]), exp, fam));
                continue;
            }
            _ => {
                r.sel[0] = 0xE800;
                (Fmt::F64, crate::props::c04::case_of(&r, lim))
            }
        };
        let show = |d: &[u8]| if d.is_empty() { "-".to_string() } else { String::from_utf8_lossy(d).to_string() };
        out.push_str(&format!("{} {} {} {} {}\n", fmt.name(), show(&c.int), show(&c.frac), c.exp, fam));
    }
    std::fs::write(file, out).expect("write c08t inputs");
}

/// Inputs for the file-based 32-bit-limb stage of C01 / C02 / C05: generated natively from the property's own
/// mixture (weighted towards the big-integer path, digit strings capped at 900 digits so that the interpreter
/// stays fast), one per line with the expected bits computed by the exact oracle *here*, so that the
/// interpreted run (Miri, --target i686) only has to parse and compare.
pub fn write_l32_inputs(seed: u64, count: u64, which: &str, file: &PathBuf) {
    use crate::gen::{mix, Limits};
    use crate::oracle::Fmt;
    let lim = Limits { long: 800, huge: 900 };
    let mut out = String::new();
    let show = |d: &[u8]| if d.is_empty() { "-".to_string() } else { String::from_utf8_lossy(d).to_string() };
    let mut i = 0u64;
    let mut emitted = 0u64;
    while emitted < count && i < count * 50 {
        i += 1;
        let mut bytes = Vec::with_capacity(96);
        let mut s = mix(seed ^ i.wrapping_mul(0x9e37_79b9_7f4a_7c15) ^ 0x1_32);
        for _ in 0..12 {
            s = mix(s);
            bytes.extend(s.to_le_bytes());
        }
        let mut r = crate::fuzzglue::recipe_from_bytes(&bytes);
        let fmt = match which {
            "f32" => Fmt::F32,
            "f64" => Fmt::F64,
            _ => {
                if i % 2 == 0 {
                    Fmt::F64
                } else {
                    Fmt::F32
                }
            }
        };
        let c = match i % 6 {
            0 if fmt == Fmt::F64 => crate::gen::g_n(&r),
            1 => {
                r.sel[3] = 0x4000; // deciding digit around the digit limit
                crate::gen::g_g(fmt, &r, lim)
            }
            2 => crate::gen::g_b(fmt, &r, lim),
            3 => crate::gen::g_p(fmt, &r),
            4 => crate::gen::g_t(fmt, &r),
            _ => crate::gen::mixed(fmt, &r, lim),
        };
        if c.int.len() + c.frac.len() > 1000 {
            continue;
        }
        // three inputs in four must reach the big-integer path in the default or compact configuration
        let slow = crate::cfgs::CFGS[0].path(fmt, &c.int, &c.frac, c.exp).slow || crate::cfgs::CFGS[1].path(fmt, &c.int, &c.frac, c.exp).slow;
        if !slow && i % 4 != 0 {
            continue;
        }
        let want = crate::oracle::expected(fmt, &c.int, &c.frac, c.exp as i64);
        out.push_str(&format!("{} {} {} {} {:#x} {}\n", fmt.name(), show(&c.int), show(&c.frac), c.exp, want, c.family.replace(' ', "_")));
        emitted += 1;
    }
    std::fs::write(file, out).expect("write l32 inputs");
}
