// Included once per shim crate (feature configuration).  The including module
// provides `use <shim> as ml;` and the constants NAME, STD, COMPACT, ALLOC.

use ml::extended_float::{extended_to_float, ExtendedFloat};
use ml::number::Number;
use ml::Float;

use crate::cfgs::{Cfg, PathInfo};

fn bytes_ok(int: &[u8], frac: &[u8]) -> bool {
    int.iter().chain(frac.iter()).all(|c| c.is_ascii_digit())
}

fn parse_g<F: Float>(int: &[u8], frac: &[u8], exp: i32) -> u64 {
    ml::parse_float::<F, _, _>(int.iter(), frac.iter(), exp).to_bits()
}

fn parse32(int: &[u8], frac: &[u8], exp: i32) -> u64 {
    parse_g::<f32>(int, frac, exp)
}

fn parse64(int: &[u8], frac: &[u8], exp: i32) -> u64 {
    parse_g::<f64>(int, frac, exp)
}

/// Which internal path the real code takes (coverage accounting only; no
/// verdict depends on it).  Only meaningful for valid digit input.
fn path_g<F: Float>(int: &[u8], frac: &[u8], exp: i32) -> PathInfo {
    let mut p = PathInfo::default();
    if !bytes_ok(int, frac) {
        return p;
    }
    let num: Number = ml::parse::verif_parse_number(int.iter(), frac.iter(), exp);
    p.mantissa = num.mantissa;
    p.exponent = num.exponent;
    p.many_digits = num.many_digits;
    if num.try_fast_path::<F>().is_some() {
        p.fast = true;
        p.disguised = num.exponent > F::MAX_EXPONENT_FAST_PATH;
        return p;
    }
    let fp = ml::parse::moderate_path::<F>(&num);
    if fp.exp >= 0 {
        p.moderate_definite = true;
        return p;
    }
    p.slow = true;
    let sci = ml::slow::scientific_exponent(&num);
    let (_, digits) = ml::slow::parse_mantissa(int.iter(), frac.iter(), F::MAX_DIGITS);
    p.slow_digits = digits as u32;
    p.slow_negative = (sci + 1 - digits as i32) < 0;
    p.beyond_max_digits = digits > F::MAX_DIGITS;
    p
}

fn path32(int: &[u8], frac: &[u8], exp: i32) -> PathInfo {
    path_g::<f32>(int, frac, exp)
}

fn path64(int: &[u8], frac: &[u8], exp: i32) -> PathInfo {
    path_g::<f64>(int, frac, exp)
}

fn number_of(int: &[u8], frac: &[u8], exp: i32) -> (u64, i32, bool) {
    let num: Number = ml::parse::verif_parse_number(int.iter(), frac.iter(), exp);
    (num.mantissa, num.exponent, num.many_digits)
}

/// The extended-precision middle stage, called directly (C11).
fn moderate_g<F: Float>(w: u64, q: i32, t: bool) -> (u64, i32) {
    let num = Number {
        mantissa: w,
        exponent: q,
        many_digits: t,
    };
    let fp = ml::parse::moderate_path::<F>(&num);
    (fp.mant, fp.exp)
}

fn moderate32(w: u64, q: i32, t: bool) -> (u64, i32) {
    moderate_g::<f32>(w, q, t)
}

fn moderate64(w: u64, q: i32, t: bool) -> (u64, i32) {
    moderate_g::<f64>(w, q, t)
}

fn fast_g<F: Float>(w: u64, q: i32, t: bool) -> Option<u64> {
    let num = Number {
        mantissa: w,
        exponent: q,
        many_digits: t,
    };
    num.try_fast_path::<F>().map(|f| f.to_bits())
}

fn fast32(w: u64, q: i32, t: bool) -> Option<u64> {
    fast_g::<f32>(w, q, t)
}

fn fast64(w: u64, q: i32, t: bool) -> Option<u64> {
    fast_g::<f64>(w, q, t)
}

fn pack_g<F: Float>(mant: u64, exp: i32) -> u64 {
    extended_to_float::<F>(ExtendedFloat {
        mant,
        exp,
    })
    .to_bits()
}

fn pack32(mant: u64, exp: i32) -> u64 {
    pack_g::<f32>(mant, exp)
}

fn pack64(mant: u64, exp: i32) -> u64 {
    pack_g::<f64>(mant, exp)
}

/// The shift-and-round primitive (C18): returns the (mant, exp) fields.
fn round_g<F: Float>(mant: u64, exp: i32, nearest: bool) -> (u64, i32) {
    let mut fp = ExtendedFloat {
        mant,
        exp,
    };
    if nearest {
        ml::rounding::round::<F, _>(&mut fp, |f, s| {
            ml::rounding::round_nearest_tie_even(f, s, |is_odd, is_halfway, is_above| {
                is_above || (is_odd && is_halfway)
            });
        });
    } else {
        ml::rounding::round::<F, _>(&mut fp, ml::rounding::round_down);
    }
    (fp.mant, fp.exp)
}

fn round32(mant: u64, exp: i32, nearest: bool) -> (u64, i32) {
    round_g::<f32>(mant, exp, nearest)
}

fn round64(mant: u64, exp: i32, nearest: bool) -> (u64, i32) {
    round_g::<f64>(mant, exp, nearest)
}

fn masks(which: u32, n: u64) -> u64 {
    match which {
        0 => ml::mask::lower_n_mask(n),
        1 => ml::mask::lower_n_halfway(n),
        _ => ml::mask::nth_bit(n),
    }
}

/// Float helper decomposition (C17): (is_denormal, exponent, mantissa,
/// to_bits(from_bits(bits)), b.mant, b.exp, bh.mant, bh.exp)
fn helpers_g<F: Float>(bits: u64) -> crate::cfgs::Helpers {
    let f = F::from_bits(bits);
    let b = ml::slow::b(f);
    let bh = ml::slow::bh(f);
    crate::cfgs::Helpers {
        is_denormal: f.is_denormal(),
        exponent: f.exponent(),
        mantissa: f.mantissa(),
        roundtrip: f.to_bits(),
        b: (b.mant, b.exp),
        bh: (bh.mant, bh.exp),
    }
}

fn helpers32(bits: u64) -> crate::cfgs::Helpers {
    helpers_g::<f32>(bits)
}

fn helpers64(bits: u64) -> crate::cfgs::Helpers {
    helpers_g::<f64>(bits)
}

fn consts_g<F: Float>() -> crate::cfgs::FloatConsts {
    crate::cfgs::FloatConsts {
        max_digits: F::MAX_DIGITS,
        mantissa_size: F::MANTISSA_SIZE,
        exponent_bias: F::EXPONENT_BIAS,
        infinite_power: F::INFINITE_POWER,
        invalid_fp: F::INVALID_FP,
        min_exp_fast: F::MIN_EXPONENT_FAST_PATH,
        max_exp_fast: F::MAX_EXPONENT_FAST_PATH,
        max_exp_disguised: F::MAX_EXPONENT_DISGUISED_FAST_PATH,
        max_mantissa_fast: F::MAX_MANTISSA_FAST_PATH,
    }
}

fn consts32() -> crate::cfgs::FloatConsts {
    consts_g::<f32>()
}

fn consts64() -> crate::cfgs::FloatConsts {
    consts_g::<f64>()
}

fn pow_fast32(e: usize) -> u64 {
    assert!(e <= 10);
    // SAFETY: e is within the documented table size.
    unsafe { <f32 as Float>::pow_fast_path(e) }.to_bits() as u64
}

fn pow_fast64(e: usize) -> u64 {
    assert!(e <= 22);
    // SAFETY: e is within the documented table size.
    unsafe { <f64 as Float>::pow_fast_path(e) }.to_bits()
}

pub const CFG: Cfg = Cfg {
    name: NAME,
    std: STD,
    compact: COMPACT,
    alloc: ALLOC,
    parse32,
    parse64,
    path32,
    path64,
    number_of,
    moderate32,
    moderate64,
    fast32,
    fast64,
    pack32,
    pack64,
    round32,
    round64,
    masks,
    helpers32,
    helpers64,
    consts32,
    consts64,
    pow_fast32,
    pow_fast64,
};
