mod cfgs;
mod gen;
mod nat;
mod oracle;
mod props;
mod runner;
mod selftest;

use oracle::Fmt;
use runner::{Ctx, Tier};
use std::path::PathBuf;
use std::time::Instant;

fn usage() -> ! {
    eprintln!("usage: mlv <ID> quick|thorough   |   mlv <ID> --replay <file>   |   mlv selftest");
    std::process::exit(2);
}

fn main() {
    let args: Vec<String> = std::env::args().collect();
    if args.len() < 2 {
        usage();
    }
    runner::install_quiet_panic_hook();
    let verif_dir = PathBuf::from(std::env::var("VERIF_DIR").unwrap_or_else(|_| "/verif".into()));
    let seed: u64 = std::env::var("VERIF_SEED").ok().and_then(|s| s.trim().parse::<i64>().ok()).map(|v| v as u64).unwrap_or(0);
    let threads: usize = std::env::var("VERIF_THREADS").ok().and_then(|s| s.parse().ok()).unwrap_or_else(|| std::thread::available_parallelism().map(|n| n.get()).unwrap_or(8));
    let scale: f64 = std::env::var("VERIF_SCALE").ok().and_then(|s| s.parse().ok()).unwrap_or(1.0);
    let id = args[1].clone();
    if id == "hardtable" {
        selftest::hard_table_report();
        return;
    }
    if id == "selftest" {
        match selftest::run(seed, &verif_dir) {
            Ok(n) => {
                println!("selftest ok: {n} checks");
                std::process::exit(0);
            }
            Err(e) => {
                eprintln!("HARNESS-ERROR selftest: {e}");
                std::process::exit(2);
            }
        }
    }
    if args.len() >= 4 && args[2] == "--replay" {
        let text = std::fs::read_to_string(&args[3]).unwrap_or_else(|e| {
            eprintln!("cannot read {}: {e}", args[3]);
            std::process::exit(2);
        });
        let v: serde_json::Value = serde_json::from_str(&text).unwrap_or_else(|e| {
            eprintln!("bad replay file: {e}");
            std::process::exit(2);
        });
        let r = match id.as_str() {
            "C01" | "C02" | "C06" | "C07" | "C04" => props::c01::replay(&v),
            "C03" => props::c03::replay(&v),
            "C05" => props::c05::replay(&v),
            "C09" | "C10" => props::c09::replay(&v),
            "C11" => props::c11::replay(&v),
            "C12" => props::c12::replay(&v),
            "C13" => props::c13::replay(&v),
            "C14" => props::c14::replay(&v),
            "C17" => props::c17::replay(&v),
            "C18" => props::c18::replay(&v),
            _ => Err(format!("no replay for {id}")),
        };
        match r {
            Ok(true) => {
                println!("VIOLATION property={} replay={}", id, args[3]);
                std::process::exit(1);
            }
            Ok(false) => {
                println!("replay: property {} holds on this input", id);
                std::process::exit(0);
            }
            Err(e) => {
                eprintln!("replay error: {e}");
                std::process::exit(2);
            }
        }
    }
    if args.len() < 3 {
        usage();
    }
    let tier = match args[2].as_str() {
        "quick" => Tier::Quick,
        "thorough" => Tier::Thorough,
        _ => usage(),
    };
    let ctx = Ctx { id: id.clone(), tier, seed, threads, known: runner::load_known(&verif_dir), verif_dir: verif_dir.clone(), start: Instant::now(), scale };
    // every check that uses the oracle first validates it (exit 2 on failure)
    if let Err(e) = selftest::run(seed, &verif_dir) {
        eprintln!("HARNESS-ERROR selftest: {e}");
        println!("INCONCLUSIVE property={} harness self-test failed (exit 2)", id);
        std::process::exit(2);
    }
    let code = match id.as_str() {
        "C01" => props::c01::run(&ctx, Fmt::F64),
        "C02" => props::c01::run(&ctx, Fmt::F32),
        "C03" => props::c03::run(&ctx),
        "C05" => props::c05::run(&ctx),
        "C06" => props::c06::run(&ctx),
        "C07" => props::c07::run(&ctx),
        "C09" => props::c09::run(&ctx),
        "C10" => props::c10::run(&ctx),
        "C11" => props::c11::run(&ctx),
        "C12" => props::c12::run(&ctx),
        "C13" => props::c13::run(&ctx),
        "C14" => props::c14::run(&ctx),
        "C17" => props::c17::run(&ctx),
        "C18" => props::c18::run(&ctx),
        _ => {
            eprintln!("unknown property {id}");
            2
        }
    };
    std::process::exit(code);
}
