use mlv::{alloc_count, gen, props, runner, selftest, supervisor};

use mlv::oracle::Fmt;
use runner::{Ctx, Tier};
use std::path::PathBuf;
use std::time::Instant;

#[global_allocator]
static GLOBAL: alloc_count::Counting = alloc_count::Counting;

/// Replay every committed regression input of this property (corpus/regress/<ID>*.json).
fn regress(id: &str, verif_dir: &PathBuf) -> i32 {
    let dir = verif_dir.join("corpus").join("regress");
    let mut files: Vec<PathBuf> = match std::fs::read_dir(&dir) {
        Ok(rd) => rd.filter_map(|e| e.ok()).map(|e| e.path()).filter(|p| p.file_name().and_then(|n| n.to_str()).map_or(false, |n| n.starts_with(id) && n.ends_with(".json"))).collect(),
        Err(_) => return 0,
    };
    files.sort();
    for f in files {
        let v: serde_json::Value = match std::fs::read_to_string(&f).ok().and_then(|t| serde_json::from_str(&t).ok()) {
            Some(v) => v,
            None => {
                eprintln!("HARNESS-ERROR: unreadable regression file {}", f.display());
                return 2;
            }
        };
        match replay_dispatch(id, &v) {
            Ok(true) => {
                println!("VIOLATION property={} replay={}", id, f.display());
                return 1;
            }
            Ok(false) => {}
            Err(e) => {
                eprintln!("HARNESS-ERROR: regression replay {}: {e}", f.display());
                return 2;
            }
        }
    }
    0
}

fn replay_recipe(id: &str, tier: Tier, v: &serde_json::Value) -> i32 {
    use gen::Recipe;
    let mut st = runner::Stats::default();
    let lim_c04 = tier.pick(gen::Limits { long: 3_000, huge: 100_000 }, gen::Limits { long: 10_000, huge: 1_000_000 });
    let lim_c19 = tier.pick(gen::Limits { long: 1_500, huge: 20_000 }, gen::Limits { long: 10_000, huge: 100_000 });
    if let Some(i) = v["sweep_index"].as_u64() {
        let r = match id {
            "C04" => props::c04::replay_sweep(i, tier, &mut st),
            _ => Ok(()),
        };
        return match r {
            Ok(()) => 0,
            Err(f) => {
                println!("replay: {}", f.message);
                1
            }
        };
    }
    let r = match Recipe::from_json(v) {
        Some(r) => r,
        None => {
            eprintln!("replay-recipe: not a recipe");
            return 2;
        }
    };
    let res = match id {
        "C04" => props::c04::check_recipe(&r, lim_c04, &mut st),
        "C08" => props::c08::check_recipe(&r, 10_000, &mut st),
        "C12" => props::c12::check_recipe(&r, &mut st),
        "C13" => props::c13::check_recipe(&r, &mut st),
        "C19" => props::c19::check_recipe(&r, lim_c19, &mut st),
        _ => {
            eprintln!("replay-recipe: unsupported property {id}");
            return 2;
        }
    };
    match res {
        Ok(()) => 0,
        Err(f) => {
            println!("replay: {}", f.message);
            if f.harness {
                2
            } else {
                1
            }
        }
    }
}

fn replay_dispatch(id: &str, v: &serde_json::Value) -> Result<bool, String> {
    match id {
        "C01" | "C02" | "C06" | "C07" | "C04" | "C08" => props::c01::replay(v),
        "C03" => props::c03::replay(v),
        "C05" => props::c05::replay(v),
        "C09" | "C10" => props::c09::replay(v),
        "C11" => props::c11::replay(v),
        "C12" => props::c12::replay(v),
        "C13" => props::c13::replay(v),
        "C14" => props::c14::replay(v),
        "C15" => props::c15::replay(v),
        "C16" => props::c16::replay(v),
        "C17" => props::c17::replay(v),
        "C18" => props::c18::replay(v),
        "C19" => props::c19::replay(v),
        _ => Err(format!("no replay for {id}")),
    }
}

fn usage() -> ! {
    eprintln!("usage: mlv <ID> quick|thorough   |   mlv <ID> --replay <file>   |   mlv selftest");
    std::process::exit(2);
}

fn main() {
    let args: Vec<String> = std::env::args().collect();
    if args.len() < 2 {
        usage();
    }
    runner::install_quiet_panic_hook();
    let verif_dir = PathBuf::from(std::env::var("VERIF_DIR").unwrap_or_else(|_| "/verif".into()));
    let seed: u64 = std::env::var("VERIF_SEED").ok().and_then(|s| s.trim().parse::<i64>().ok()).map(|v| v as u64).unwrap_or(0);
    let threads: usize = std::env::var("VERIF_THREADS").ok().and_then(|s| s.parse().ok()).unwrap_or_else(|| std::thread::available_parallelism().map(|n| n.get()).unwrap_or(8));
    let scale: f64 = std::env::var("VERIF_SCALE").ok().and_then(|s| s.parse().ok()).unwrap_or(1.0);
    let id = args[1].clone();
    if id == "c08t-inputs" {
        let n: u64 = args.get(3).and_then(|s| s.parse().ok()).unwrap_or(8);
        let s: u64 = args.get(2).and_then(|s| s.parse().ok()).unwrap_or(0);
        selftest::write_c08t_inputs(s, n, &PathBuf::from(args.get(4).cloned().unwrap_or_else(|| "/verif/build/c08t.txt".into())));
        return;
    }
    if id == "l32-inputs" {
        let sd: u64 = args.get(2).and_then(|s| s.parse().ok()).unwrap_or(0);
        let n: u64 = args.get(3).and_then(|s| s.parse().ok()).unwrap_or(8);
        let which = args.get(4).cloned().unwrap_or_else(|| "both".into());
        selftest::write_l32_inputs(sd, n, &which, &PathBuf::from(args.get(5).cloned().unwrap_or_else(|| "/verif/build/l32.txt".into())));
        return;
    }
    if id == "fuzz-seeds" {
        // regenerate the committed libFuzzer seed corpora from the generator families (fixed recipes)
        let dir = PathBuf::from(args.get(2).cloned().unwrap_or_else(|| "/verif/fuzz/seeds".into()));
        selftest::write_fuzz_seeds(&dir);
        return;
    }
    if id == "deep" {
        // child process of the C19 deep-input stage: mlv deep <kind> <len>
        let kind: usize = args.get(2).and_then(|s| s.parse().ok()).unwrap_or(0);
        let n: usize = args.get(3).and_then(|s| s.parse().ok()).unwrap_or(100_000);
        let lib = args.get(4).map(|s| s.as_str()) == Some("lib");
        let res = if lib { mlv::props::c04::deep_check(kind, n) } else { mlv::props::c19::deep_check(kind, n) };
        match res {
            Ok(()) => {
                println!("DEEP-OK kind={kind} len={n}");
                std::process::exit(0);
            }
            Err(m) => {
                println!("DEEP-VIOLATION kind={kind} len={n}: {m}");
                std::process::exit(1);
            }
        }
    }
    if id == "carrytable" {
        let t0 = std::time::Instant::now();
        let t = mlv::gen::lemire_carry_table();
        println!("lemire carry table: {} entries in {:.2} s; independent re-check: {:?}", t.len(), t0.elapsed().as_secs_f64(), mlv::gen::validate_carry_table());
        for e in t.iter().step_by(t.len() / 12 + 1) {
            println!("  {:?}", e);
        }
        return;
    }
    if id == "secondproduct" {
        selftest::second_product_report();
        return;
    }
    if id == "hardtable" {
        selftest::hard_table_report();
        return;
    }
    if id == "selftest" {
        match selftest::run(seed, &verif_dir) {
            Ok(n) => {
                println!("selftest ok: {n} checks");
                std::process::exit(0);
            }
            Err(e) => {
                eprintln!("HARNESS-ERROR selftest: {e}");
                std::process::exit(2);
            }
        }
    }
    if args.len() >= 4 && args[2] == "--replay-recipe" {
        let tier = if args.get(4).map(|s| s.as_str()) == Some("thorough") { Tier::Thorough } else { Tier::Quick };
        let text = std::fs::read_to_string(&args[3]).unwrap_or_default();
        let v: serde_json::Value = serde_json::from_str(&text).unwrap_or(serde_json::json!({}));
        std::process::exit(replay_recipe(&id, tier, &v));
    }
    if args.len() >= 4 && args[2] == "--replay" {
        let text = std::fs::read_to_string(&args[3]).unwrap_or_else(|e| {
            eprintln!("cannot read {}: {e}", args[3]);
            std::process::exit(2);
        });
        let v: serde_json::Value = serde_json::from_str(&text).unwrap_or_else(|e| {
            eprintln!("bad replay file: {e}");
            std::process::exit(2);
        });
        if v["case"]["kind"] == "miri-c08t" {
            let tmp = std::env::temp_dir().join(format!("mlv-c08t-{}.txt", std::process::id()));
            std::fs::write(&tmp, format!("{}\n", v["case"]["input_line"].as_str().unwrap_or(""))).ok();
            let mut cmd = std::process::Command::new("cargo");
            cmd.current_dir(verif_dir.join("harness")).args(["+nightly", "miri", "run", "-q"]);
            if v["case"]["release"].as_bool() == Some(true) {
                cmd.arg("--release");
            }
            if let Some(t) = v["case"]["target"].as_str() {
                cmd.args(["--target", t]);
            }
            let st = cmd
                .args(["-p", "mlv", "--bin", "mlv-miri", "--", "C08T", tmp.to_str().unwrap()])
                .env("MIRIFLAGS", "-Zmiri-tree-borrows -Zmiri-disable-isolation -Zmiri-no-extra-rounding-error")
                .env("CARGO_TARGET_DIR", verif_dir.join("build").join("miri"))
                .env("CARGO_NET_OFFLINE", "true")
                .status();
            let _ = std::fs::remove_file(&tmp);
            match st {
                Ok(s) if s.success() => {
                    println!("replay: property {} holds on this input (Miri, tree borrows)", id);
                    std::process::exit(0);
                }
                _ => {
                    println!("VIOLATION property={} replay={}", id, args[3]);
                    std::process::exit(1);
                }
            }
        }
        if v["case"]["kind"] == "deep" {
            let which = v["case"]["binary"].as_str().unwrap_or("release");
            let bin = match which {
                "dbgchk" => std::env::var("MLV_DBGCHK_BIN").ok(),
                "dbg0" => std::env::var("MLV_DBG0_BIN").ok(),
                _ => std::env::current_exe().ok().map(|p| p.display().to_string()),
            };
            let Some(bin) = bin else {
                eprintln!("HARNESS-ERROR the {which} build is not available (use run.sh)");
                std::process::exit(2);
            };
            let st = std::process::Command::new(bin)
                .args(["deep", &v["case"]["input_kind"].as_u64().unwrap_or(0).to_string(), &v["case"]["len"].as_u64().unwrap_or(100_000).to_string(), if id == "C19" { "front" } else { "lib" }])
                .status();
            match st {
                Ok(s) if s.success() => {
                    println!("replay: property {} holds on this deep input ({which} build)", id);
                    std::process::exit(0);
                }
                Ok(_) => {
                    println!("VIOLATION property={} replay={}", id, args[3]);
                    std::process::exit(1);
                }
                Err(e) => {
                    eprintln!("HARNESS-ERROR cannot start the child: {e}");
                    std::process::exit(2);
                }
            }
        }
        if v["case"]["kind"] == "l32f" {
            let file = verif_dir.join("build").join(format!("l32f-replay-{}.txt", std::process::id()));
            std::fs::create_dir_all(verif_dir.join("build")).ok();
            std::fs::write(&file, format!("{}\n", v["case"]["line"].as_str().unwrap_or(""))).expect("write replay input");
            let out = std::process::Command::new("cargo")
                .current_dir(verif_dir.join("harness"))
                .args(["+nightly", "miri", "run", "-q", "--target", v["case"]["target"].as_str().unwrap_or("i686-unknown-linux-gnu"), "-p", "mlv", "--bin", "mlv-miri", "--", "L32F", file.to_str().unwrap()])
                .env("MIRIFLAGS", "-Zmiri-tree-borrows -Zmiri-disable-isolation -Zmiri-no-extra-rounding-error")
                .env("CARGO_TARGET_DIR", verif_dir.join("build").join("miri"))
                .env("CARGO_NET_OFFLINE", "true")
                .output();
            let _ = std::fs::remove_file(&file);
            match out {
                Ok(o) if o.status.success() && String::from_utf8_lossy(&o.stdout).contains("MIRI-OK L32F cases=1") => {
                    println!("replay: property {} holds on this input with 32-bit limbs", id);
                    std::process::exit(0);
                }
                Ok(o) => {
                    for l in String::from_utf8_lossy(&o.stdout).lines().filter(|l| l.starts_with("MIRI-VIOLATION")) {
                        println!("replay: {l}");
                    }
                    println!("VIOLATION property={} replay={}", id, args[3]);
                    std::process::exit(1);
                }
                Err(e) => {
                    eprintln!("HARNESS-ERROR cannot run Miri: {e}");
                    std::process::exit(2);
                }
            }
        }
        if v["case"]["kind"] == "l32" {
            let seed = v["case"]["seed"].as_u64().unwrap_or(0).to_string();
            let count = v["case"]["count"].as_u64().unwrap_or(4).to_string();
            let st = std::process::Command::new("cargo")
                .current_dir(verif_dir.join("harness"))
                .args(["+nightly", "miri", "run", "-q", "--target", v["case"]["target"].as_str().unwrap_or("i686-unknown-linux-gnu"), "-p", "mlv", "--bin", "mlv-miri", "--", if id == "C18" { "U32" } else if id == "C12" { "C12" } else if id == "C13" { "C13" } else { "L32" }, &count, &seed])
                .env("MIRIFLAGS", "-Zmiri-tree-borrows -Zmiri-disable-isolation -Zmiri-no-extra-rounding-error")
                .env("CARGO_TARGET_DIR", verif_dir.join("build").join("miri"))
                .env("CARGO_NET_OFFLINE", "true")
                .status();
            match st {
                Ok(s) if s.success() => {
                    println!("replay: property {} holds in the 32-bit-limb stage", id);
                    std::process::exit(0);
                }
                _ => {
                    println!("VIOLATION property={} replay={}", id, args[3]);
                    std::process::exit(1);
                }
            }
        }
        if v["case"]["kind"] == "miri" {
            let idx = v["case"]["index"].as_str().unwrap_or("0").to_string();
            let seed = v["case"]["seed"].as_u64().unwrap_or(0).to_string();
            let st = std::process::Command::new("cargo")
                .current_dir(verif_dir.join("harness"))
                .args(["+nightly", "miri", "run", "-q", "-p", "mlv", "--bin", "mlv-miri", "--", id.as_str(), "1", &seed, &idx])
                .env("MIRIFLAGS", "-Zmiri-tree-borrows -Zmiri-disable-isolation")
                .env("CARGO_TARGET_DIR", verif_dir.join("build").join("miri"))
                .env("CARGO_NET_OFFLINE", "true")
                .status();
            match st {
                Ok(s) if s.success() => {
                    println!("replay: property {} holds on this input (Miri, tree borrows)", id);
                    std::process::exit(0);
                }
                _ => {
                    println!("VIOLATION property={} replay={}", id, args[3]);
                    std::process::exit(1);
                }
            }
        }
        if v["case"]["kind"] == "abort" {
            // re-run the traced case in the build that died; an abnormal exit reproduces the violation
            let which = v["case"]["binary"].as_str().unwrap_or("dbgchk");
            let bin = if which == "release" { std::env::current_exe().unwrap() } else { PathBuf::from(std::env::var("MLV_DBGCHK_BIN").unwrap_or_else(|_| "/verif/build/harness/dbgchk/mlv".into())) };
            let tmp = std::env::temp_dir().join(format!("mlv-replay-{}.json", std::process::id()));
            std::fs::write(&tmp, v["case"]["trace"].to_string()).ok();
            let st = std::process::Command::new(bin).args([id.as_str(), "--replay-recipe", tmp.to_str().unwrap(), v["tier"].as_str().unwrap_or("quick")]).status();
            let _ = std::fs::remove_file(&tmp);
            match st {
                Ok(s) if s.code() == Some(0) => {
                    println!("replay: property {} holds on this input", id);
                    std::process::exit(0);
                }
                Ok(s) if s.code() == Some(2) => std::process::exit(2),
                _ => {
                    println!("VIOLATION property={} replay={}", id, args[3]);
                    std::process::exit(1);
                }
            }
        }
        let r = replay_dispatch(&id, &v);
        match r {
            Ok(true) => {
                println!("VIOLATION property={} replay={}", id, args[3]);
                std::process::exit(1);
            }
            Ok(false) => {
                println!("replay: property {} holds on this input", id);
                std::process::exit(0);
            }
            Err(e) => {
                eprintln!("replay error: {e}");
                std::process::exit(2);
            }
        }
    }
    if args.len() < 3 {
        usage();
    }
    let tier = match args[2].as_str() {
        "quick" => Tier::Quick,
        "thorough" => Tier::Thorough,
        _ => usage(),
    };
    let fragment = args.iter().position(|a| a == "--fragment").and_then(|i| args.get(i + 1)).map(PathBuf::from);
    let ctx = Ctx { id: id.clone(), tier, seed, threads, known: runner::load_known(&verif_dir), verif_dir: verif_dir.clone(), start: Instant::now(), scale, fragment };
    runner::set_known(&id, &ctx.known);
    if supervisor::SUPERVISED.contains(&id.as_str()) && ctx.fragment.is_none() {
        // regression corpus first (seconds), then the supervised workers
        let rc = regress(&id, &verif_dir);
        if rc != 0 {
            std::process::exit(rc);
        }
        std::process::exit(supervisor::run(&ctx));
    }
    if ctx.fragment.is_none() {
        let rc = regress(&id, &verif_dir);
        if rc != 0 {
            std::process::exit(rc);
        }
    }
    // every check that uses the oracle first validates it (exit 2 on failure)
    if let Err(e) = selftest::run(seed, &verif_dir) {
        eprintln!("HARNESS-ERROR selftest: {e}");
        println!("INCONCLUSIVE property={} harness self-test failed (exit 2)", id);
        std::process::exit(2);
    }
    let code = std::panic::catch_unwind(std::panic::AssertUnwindSafe(|| match id.as_str() {
        "C01" => props::c01::run(&ctx, Fmt::F64),
        "C02" => props::c01::run(&ctx, Fmt::F32),
        "C03" => props::c03::run(&ctx),
        "C04" => props::c04::run(&ctx),
        "C05" => props::c05::run(&ctx),
        "C06" => props::c06::run(&ctx),
        "C07" => props::c07::run(&ctx),
        "C08" => props::c08::run(&ctx),
        "C09" => props::c09::run(&ctx),
        "C10" => props::c10::run(&ctx),
        "C11" => props::c11::run(&ctx),
        "C12" => props::c12::run(&ctx),
        "C13" => props::c13::run(&ctx),
        "C14" => props::c14::run(&ctx),
        "C15" => props::c15::run(&ctx),
        "C16" => props::c16::run(&ctx),
        "C17" => props::c17::run(&ctx),
        "C18" => props::c18::run(&ctx),
        "C19" => props::c19::run(&ctx),
        _ => {
            eprintln!("unknown property {id}");
            2
        }
    }))
    .unwrap_or_else(|_| {
        // a panic of the harness itself (not of the code under test): never a violation
        eprintln!("HARNESS-ERROR property={id}: the harness panicked (see HARNESS PANIC above)");
        println!("INCONCLUSIVE property={id} harness panic (exit 2)");
        2
    });
    let code = if ctx.fragment.is_none() { supervisor::fuzz_poststep(&ctx, code) } else { code };
    std::process::exit(code);
}
