//! minimal-lexical verification harness (library part: shared by the `mlv`
//! binary and the cargo-fuzz targets under /verif/fuzz).

pub mod alloc_count;
pub use mlc::{cfgs, fronts};
pub mod gen;
pub mod nat;
pub mod oracle;
pub mod props;
pub mod runner;
pub mod selftest;
pub mod supervisor;
pub mod fuzzglue;
