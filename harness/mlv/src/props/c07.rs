//! C07: overflow, underflow and subnormals follow IEEE exactly; no wrap-around.

use super::common::{account, all_cfgs, check_rounding};
use crate::gen::{self, pick_w, Limits};
use crate::oracle::Fmt;
use crate::runner::{finish, require_counter, run_recipes, Ctx, Report};

pub fn run(ctx: &Ctx) -> i32 {
    let lim: Limits = ctx.tier.pick(gen::QUICK, gen::THOROUGH);
    let cfgs = all_cfgs();
    let mut rep = Report::new(
        "G-F range-end family: midpoint-family inputs around the floats {0, min subnormal, 2, 3, largest subnormal, \
         min normal, MAX-2ulp..MAX} and random subnormals / top-binade / lowest-normal-binade floats; zero significands \
         of every shape x every exponent class; compensated extremes (1 0^n with exponent -n+k, 0.0^n d with exponent \
         n+k); uncompensable exponents (|e| >= 2^30, i32::MIN/MAX); shaped-random inputs with exponents at the i32 \
         extremes and at every early-out constant (-342/-343, 308/309, -65/-66, 38/39, +-0x1000); closest-approach \
         inputs restricted to subnormal and top binades; interior points (G-I: (x + num/2^k) ulp for extreme floats and \
         subnormals of every bit length, exact or cut to <= 19 / 20..50 digits). Oracle: exact midpoint comparison with hi(0) and hi(MAX) \
         thresholds; exponent arithmetic in i64. Non-trivial: result subnormal, MAX, inf or zero-by-underflow, or \
         |exponent| >= 1e5, or big-integer path; distinct by fingerprint.",
    );
    rep.assume("same oracle as C01");
    let cases = ctx.cases(1_000_000, 50_000_000);
    let r = run_recipes(ctx.seed, cases, ctx.threads, 7, |r, stats| {
        let fmt = if r.sel[7] & 1 == 0 { Fmt::F64 } else { Fmt::F32 };
        let c = match pick_w(r.sel[0], &[60, 15, 25, 10]) {
            3 => gen::g_i(fmt, r, true),
            0 => gen::g_f(fmt, r, lim),
            1 => {
                let mut r2 = r.clone();
                r2.sel[5] = 0x8000 + r.sel[5] / 3; // exponent classes range-edge .. i32-extreme
                gen::g_a(fmt, &r2, lim)
            }
            _ => gen::g_c_edge(fmt, r, lim),
        };
        let bits = check_rounding(fmt, &c, &cfgs)?;
        let nt = account(fmt, &c, bits, stats, true);
        if (c.exp as i64).abs() >= 100_000 {
            stats.count("abs-exponent>=1e5");
            if !nt {
                stats.nontrivial.push(c.fingerprint());
            }
        }
        if (c.exp as i64).abs() > 400 {
            stats.count("abs-exponent>400");
        }
        Ok(())
    });
    rep.absorb(r);
    for k in ["result-subnormal", "result-max", "result-inf", "result-zero-by-underflow", "abs-exponent>=1e5"] {
        require_counter(&mut rep, k, 1000);
    }
    finish(ctx, rep)
}
