//! C03: printed floats parse back to the same float (round trip).

use super::common::raw_detail;
use crate::cfgs::CFGS;
use crate::gen::{self, float_of};
use crate::oracle::{self, Fmt, Verdict};
use crate::runner::{catch, finish, last_panic_location, require_counter, run_recipes, run_sweep, Ctx, Failure, Report, Stats, Tier};
use serde_json::json;

/// (integer digits, fraction digits, exponent) of a std scientific rendering "d.ddde-7".
fn split_sci(s: &str) -> (Vec<u8>, Vec<u8>, i32) {
    let (m, e) = s.split_once('e').expect("scientific rendering");
    let exp: i32 = e.parse().expect("exponent");
    let (i, f) = match m.split_once('.') {
        Some((i, f)) => (i, f),
        None => (m, ""),
    };
    let int = i.trim_start_matches('0').as_bytes().to_vec();
    let frac = f.trim_end_matches('0').as_bytes().to_vec();
    (int, frac, exp)
}

pub const RENDERINGS: [&str; 5] = ["shortest", "fixed-sig-digits(9/17)", "exact-expansion", "shortest-positional", "fixed-sig-digits-positional"];

/// The same decimal written positionally, the way `{}` / Display prints a float: all integer digits including
/// the trailing zeros ("13085272010142930000000000000000000000"), or "0.000ddd" as an empty integer part and a
/// fraction with leading zeros; exponent 0.
fn positional((int, frac, exp): (Vec<u8>, Vec<u8>, i32)) -> (Vec<u8>, Vec<u8>, i32) {
    let mut d = int.clone();
    d.extend_from_slice(&frac);
    if d.is_empty() {
        return (vec![], vec![], 0);
    }
    let point = int.len() as i64 + exp as i64;
    let len = d.len() as i64;
    if point >= len {
        d.extend(std::iter::repeat(b'0').take((point - len) as usize));
        (d, vec![], 0)
    } else if point <= 0 {
        let mut f = vec![b'0'; (-point) as usize];
        f.extend_from_slice(&d);
        (vec![], f, 0)
    } else {
        (d[..point as usize].to_vec(), d[point as usize..].to_vec(), 0)
    }
}

pub fn render(fmt: Fmt, bits: u64, which: usize) -> (Vec<u8>, Vec<u8>, i32) {
    match which {
        0 => match fmt {
            Fmt::F32 => split_sci(&format!("{:e}", f32::from_bits(bits as u32))),
            Fmt::F64 => split_sci(&format!("{:e}", f64::from_bits(bits))),
        },
        1 => match fmt {
            Fmt::F32 => split_sci(&format!("{:.8e}", f32::from_bits(bits as u32))),
            Fmt::F64 => split_sci(&format!("{:.16e}", f64::from_bits(bits))),
        },
        3 => positional(render(fmt, bits, 0)),
        4 => positional(render(fmt, bits, 1)),
        _ => {
            let d = oracle::exact(fmt, bits);
            if d.is_zero() {
                return (vec![], vec![], 0);
            }
            // natural split when small, else integer-only / fraction-only with exponent
            let digits: Vec<u8> = d.digits.iter().map(|x| x + b'0').collect();
            let len = digits.len() as i64;
            if d.point > 0 && d.point < len {
                (digits[..d.point as usize].to_vec(), digits[d.point as usize..].to_vec(), 0)
            } else if d.point >= len {
                (digits, vec![], (d.point - len) as i32)
            } else {
                (vec![], digits, d.point as i32)
            }
        }
    }
}

fn check_value(fmt: Fmt, bits: u64, cfgs: &[usize], validate: bool, stats: &mut Stats, fp_salt: u64) -> Result<(), Failure> {
    for which in 0..5 {
        let (int, frac, exp) = render(fmt, bits, which);
        if validate && which != 2 {
            // the rendering itself must identify x (a std formatting quirk must not become an alarm)
            if oracle::judge(fmt, bits, &int, &frac, exp as i64) != Verdict::Correct {
                return Err(Failure::harness(
                    format!("rendering {} of {} does not identify it", RENDERINGS[which], fmt.hex(bits)),
                    raw_detail(fmt, "*", &int, &frac, exp, json!({})),
                ));
            }
        }
        for &ci in cfgs {
            let cfg = &CFGS[ci];
            let got = catch(|| cfg.parse(fmt, &int, &frac, exp)).map_err(|msg| {
                Failure::violation(
                    format!("panic in {} on rendering of {}: {} at {}", cfg.name, fmt.hex(bits), msg, last_panic_location()),
                    format!("panic:{}:{}", cfg.name, fmt.name()),
                    raw_detail(fmt, cfg.name, &int, &frac, exp, json!({"panic": msg})),
                )
            })?;
            // the same rendering with digit separators, read through filter iterators (a caller that strips
            // `_` on the fly): every 8th value
            if bits % 8 == 0 && got == bits {
                let sep = |s: &[u8]| -> Vec<u8> {
                    let mut o = Vec::with_capacity(s.len() * 2);
                    for (i, &b) in s.iter().enumerate() {
                        if i % 3 == 0 {
                            o.push(b'_');
                        }
                        o.push(b);
                    }
                    o
                };
                let (si, sf) = (sep(&int), sep(&frac));
                let g = match fmt {
                    Fmt::F32 => cfg.parse_sep32,
                    Fmt::F64 => cfg.parse_sep64,
                };
                let got2 = catch(|| g(&si, &sf, exp));
                if got2 != Ok(bits) {
                    return Err(Failure::violation(
                        format!("{} rendering of {} ({}) read through filter iterators parsed back as {:?} in config {}", RENDERINGS[which], fmt.hex(bits), fmt.name(), got2.map(|b| fmt.hex(b)), cfg.name),
                        format!("roundtrip-filter:{}:{}", fmt.name(), RENDERINGS[which]),
                        raw_detail(fmt, cfg.name, &int, &frac, exp, json!({"x_bits": fmt.hex(bits), "rendering": RENDERINGS[which], "via": "filter iterators over '_'-separated digits"})),
                    ));
                }
            }
            if got != bits {
                return Err(Failure::violation(
                    format!("{} rendering of {} ({}) parsed back as {} in config {}", RENDERINGS[which], fmt.hex(bits), fmt.name(), fmt.hex(got), cfg.name),
                    format!("roundtrip:{}:{}:{}", if cfg.compact { "compact" } else { "lemire" }, fmt.name(), RENDERINGS[which]),
                    raw_detail(fmt, cfg.name, &int, &frac, exp, json!({"x_bits": fmt.hex(bits), "observed_bits": fmt.hex(got), "rendering": RENDERINGS[which]})),
                ));
            }
        }
        let n = int.len() + frac.len();
        let top_binade = bits >> fmt.mbits() == (fmt.inf_bits() >> fmt.mbits()) - 1;
        let nt = n > 15 || fmt.is_subnormal(bits) || top_binade;
        stats.count(&format!("rendering:{}", RENDERINGS[which]));
        if n > 15 {
            stats.count("digits>15");
        }
        if n > 100 {
            stats.count("digits>100");
        }
        if nt {
            stats.nontrivial.push(gen::mix(bits ^ fp_salt).wrapping_add(which as u64));
            stats.sample(&format!("{} {}", fmt.name(), RENDERINGS[which]), || {
                json!({"x_bits": fmt.hex(bits), "integer": gen::abbreviate(&int), "fraction": gen::abbreviate(&frac), "exponent": exp, "digits": n})
            });
        }
    }
    if fmt.is_subnormal(bits) {
        stats.count("x-subnormal");
    }
    // one evaluation = one rendering parsed in all configurations (the runner counted one for the value)
    stats.evaluations += 4;
    Ok(())
}

pub fn run(ctx: &Ctx) -> i32 {
    let mut rep = Report::new(
        "For a generated finite non-negative float x (classes: uniform bits = uniform over binades, subnormals, special \
         mantissas/exponents, integers, powers of ten, near powers of two, extremes, short decimals) three renderings \
         are produced: shortest (std {:e}), 9/17 significant digits (std {:.8e}/{:.16e}) - both validated by the oracle \
         to identify x before use - each in scientific layout (d.ddd, exponent) and in positional layout (all integer \
         digits with their trailing zeros, or 0.000ddd; exponent 0 - what Display prints), and the exact decimal \
         expansion (own Nat). Each is parsed in all 8 configurations \
         and must give x's bits. Distinct per (format, x, rendering); non-trivial if the rendering has > 15 digits or x \
         is subnormal or in the top binade. Thorough tier additionally enumerates f32 bit patterns.",
    );
    rep.assume("std's float formatting is used only to produce candidate renderings; each is checked by the oracle to round to x before it is used");
    let all: Vec<usize> = (0..8).collect();
    let cases = ctx.cases(300_000, 20_000_000);
    let r = run_recipes(ctx.seed, cases, ctx.threads, 3, |r, stats| {
        let fmt = if r.sel[7] & 1 == 0 { Fmt::F64 } else { Fmt::F32 };
        // one f64 case in twelve: the float whose shortest rendering sits on the carry boundary of Eisel-Lemire's
        // second multiplication (gen::lemire_carry_table, 15-17 digit significands)
        if fmt == Fmt::F64 && r.sel[6] % 12 == 0 {
            let t = gen::lemire_carry_table();
            let e = t[gen::pick(r.sel[1], t.len())];
            if e.digits <= 17 {
                let x = oracle::expected_fast(fmt, e.w.to_string().as_bytes(), b"", e.q as i64);
                if x < fmt.inf_bits() {
                    stats.class("f64 shortest rendering on the Lemire carry boundary");
                    return check_value(fmt, x, &all, true, stats, fmt as u64);
                }
            }
        }
        let (x, cls) = float_of(fmt, r.sel[1], r.a, r.b);
        stats.class(&format!("{} {}", fmt.name(), cls));
        check_value(fmt, x, &all, true, stats, fmt as u64)
    });
    rep.absorb(r);
    // enumerated f32 sweep: a residue class in quick, everything in thorough
    let n32 = Fmt::F32.inf_bits();
    let (stride, off) = match ctx.sweep_tier() {
        Tier::Quick => (1024u64, ctx.seed % 1024),
        Tier::Thorough => (1, 0),
    };
    let count = (n32 - off + stride - 1) / stride;
    let cfg2 = [0usize, 1usize];
    let base_distinct = rep.stats.distinct_nontrivial();
    let r = run_sweep(count, ctx.threads, |i, stats| {
        let bits = off + i * stride;
        let res = check_value(Fmt::F32, bits, &cfg2, i % 64 == 0, stats, 0x32);
        // enumerated patterns are distinct by construction: count the non-trivial renderings instead of keeping
        // a fingerprint for each (the complete sweep has ~10^10 of them)
        let k = stats.nontrivial.len() as u64;
        stats.nontrivial.clear();
        stats.add("f32-sweep-nontrivial-renderings", k);
        res
    });
    let swept_nontrivial = r.stats.counters.get("f32-sweep-nontrivial-renderings").copied().unwrap_or(0);
    rep.absorb(r);
    rep.extra.insert("distinct_nontrivial_override".into(), json!(base_distinct + swept_nontrivial));
    rep.extra.insert("f32_sweep".into(), json!({"stride": stride, "offset": off, "patterns": count, "configs": ["default", "compact"], "complete": stride == 1}));
    require_counter(&mut rep, "digits>100", 1000);
    require_counter(&mut rep, "x-subnormal", 1000);
    finish(ctx, rep)
}

pub fn replay(v: &serde_json::Value) -> Result<bool, String> {
    let case = &v["case"];
    let fmt = match case["format"].as_str() {
        Some("f32") => Fmt::F32,
        Some("f64") => Fmt::F64,
        _ => return Err("replay: missing format".into()),
    };
    let int = case["integer"].as_str().ok_or("integer")?.as_bytes().to_vec();
    let frac = case["fraction"].as_str().ok_or("fraction")?.as_bytes().to_vec();
    let exp = case["exponent"].as_i64().ok_or("exponent")? as i32;
    let x = case["extra"]["x_bits"].as_str().and_then(|s| u64::from_str_radix(s.trim_start_matches("0x"), 16).ok());
    let x = match x {
        Some(x) => x,
        None => oracle::expected(fmt, &int, &frac, exp as i64),
    };
    let mut bad = false;
    for cfg in CFGS.iter() {
        match catch(|| cfg.parse(fmt, &int, &frac, exp)) {
            Ok(b) => {
                println!("replay: config {} -> {} (x = {})", cfg.name, fmt.hex(b), fmt.hex(x));
                bad |= b != x;
            }
            Err(m) => {
                println!("replay: config {} panicked: {m}", cfg.name);
                bad = true;
            }
        }
    }
    Ok(bad)
}
