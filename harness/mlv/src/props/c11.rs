//! C11: the extended-precision middle stage is never confidently wrong.

use crate::cfgs::CFGS;
use crate::gen::{self, hard_table, pick_w, Hard, Recipe};
use crate::oracle::{self, cmp_input, Fmt, Verdict};
use crate::runner::{catch, finish, last_panic_location, require_counter, run_recipes, run_sweep, Ctx, Failure, Report, Stats, Tier};
use serde_json::{json, Value};
use std::cmp::Ordering;

fn detail(fmt: Fmt, cfg: &str, w: u64, q: i32, t: bool, got: Option<(u64, i32)>, bits: Option<u64>) -> Value {
    let digits = w.to_string();
    let expected = oracle::expected_fast(fmt, digits.as_bytes(), b"", q as i64);
    json!({"kind": "moderate", "format": fmt.name(), "config": cfg, "w": w, "q": q, "truncated": t,
           "returned": got.map(|(m, e)| json!({"mant": m, "exp": e})), "packed_bits": bits.map(|b| fmt.hex(b)),
           "correct_bits_for_w": fmt.hex(expected)})
}

/// Check one (w, q, t) against every configuration.  Returns (definite, declined) counts.
pub fn check_one(fmt: Fmt, w: u64, q: i32, t: bool, stats: &mut Stats) -> Result<(u32, u32), Failure> {
    let digits = w.to_string();
    let int: &[u8] = if w == 0 { b"" } else { digits.as_bytes() };
    let mut judged: Vec<(u64, bool)> = Vec::new();
    let (mut definite, mut declined) = (0, 0);
    for cfg in CFGS.iter() {
        let stage = if cfg.compact { "bellerophon" } else { "lemire" };
        let r = catch(|| cfg.moderate(fmt, w, q, t));
        let (mant, exp) = match r {
            Ok(x) => x,
            Err(msg) => {
                // a panic is not a wrong answer, but the stage must "decline or return"; valid (w,q,t) never panic
                return Err(Failure::violation(
                    format!("{stage} ({}) panicked on w={w} q={q} t={t} as {}: {msg} at {}", cfg.name, fmt.name(), last_panic_location()),
                    format!("panic:{stage}:{}", fmt.name()),
                    detail(fmt, cfg.name, w, q, t, None, None),
                ));
            }
        };
        if exp < 0 {
            declined += 1;
            stats.count(&format!("{stage}:{}:declined", fmt.name()));
            continue;
        }
        definite += 1;
        stats.count(&format!("{stage}:{}:definite", fmt.name()));
        let bits = cfg.pack(fmt, mant, exp);
        let ok = match judged.iter().find(|(b, _)| *b == bits) {
            Some((_, ok)) => *ok,
            None => {
                let mut ok = oracle::judge(fmt, bits, int, b"", q as i64) == Verdict::Correct;
                if ok && t && bits < fmt.inf_bits() {
                    // every real in [w, w+1) * 10^q must round to `bits`: (w+1)*10^q <= hi(bits)
                    let w1 = (w as u128 + 1).to_string();
                    if cmp_input(w1.as_bytes(), b"", q as i64, &oracle::hi(fmt, bits)) == Ordering::Greater {
                        ok = false;
                    }
                }
                judged.push((bits, ok));
                ok
            }
        };
        if !ok {
            return Err(Failure::violation(
                format!(
                    "{stage} ({}) is confidently wrong: w={w} q={q} truncated={t} as {} -> definite {} (mant={mant}, exp={exp}), correct for w*10^q is {}",
                    cfg.name, fmt.name(), fmt.hex(bits), fmt.hex(oracle::expected_fast(fmt, int, b"", q as i64))
                ),
                format!("confidently-wrong:{stage}:{}:{}", fmt.name(), if t { "truncated" } else { "exact" }),
                detail(fmt, cfg.name, w, q, t, Some((mant, exp)), Some(bits)),
            ));
        }
    }
    Ok((definite, declined))
}

fn from_recipe(fmt: Fmt, r: &Recipe) -> (u64, i32, bool, &'static str, bool) {
    let t = r.sel[6] & 1 == 1;
    let cap = |w: u64| if t { w.clamp(1, u64::MAX - 1) } else { w };
    let tab = match fmt {
        Fmt::F32 => &hard_table().f32,
        Fmt::F64 => &hard_table().f64,
    };
    match pick_w(r.sel[0], &[40, 12, 12, 18, 10, 8, 8]) {
        6 => {
            // interior points of the rounding interval of special floats (G-I): the stage decides these on its own
            let c = gen::g_i(fmt, r, r.sel[5] % 2 == 0);
            let mut digits: Vec<u8> = c.int.iter().chain(c.frac.iter()).copied().collect();
            let mut q = c.exp as i64 - c.frac.len() as i64;
            let lz = digits.iter().take_while(|&&b| b == b'0').count();
            digits.drain(..lz);
            let mut trunc = false;
            if digits.len() > 19 {
                q += digits.len() as i64 - 19;
                digits.truncate(19);
                trunc = true;
            }
            let w = std::str::from_utf8(&digits).ok().and_then(|s| s.parse::<u64>().ok());
            match w {
                Some(w) if w > 0 && q.abs() < 100_000 => (w, q as i32, trunc, "interior-point", true),
                _ => (cap(r.a), (r.b % 800) as i32 - 400, t, "uniform", false),
            }
        }
        0 => {
            let h: Hard = tab[((r.a as u128 * tab.len() as u128) >> 64) as usize];
            let delta = [0i64, 0, 1, -1, 2, -2, 3, -3][(r.k[0] % 8) as usize];
            let w = (h.w as i128 + delta as i128).clamp(0, u64::MAX as i128) as u64;
            (cap(w), h.q, t, "closest-approach", h.closeness >= 40 || delta != 0)
        }
        1 => {
            let c = gen::g_d(fmt, r);
            let w = std::str::from_utf8(&c.int).ok().and_then(|s| s.parse::<u64>().ok());
            // the tie itself half of the time, otherwise its neighbours w +- 1, 2 (one below / above a tie)
            let d = [0i64, 0, 0, 0, 1, -1, 2, -2][(r.k[3] % 8) as usize];
            match (w, c.frac.is_empty()) {
                (Some(w), true) => (cap((w as i128 + d as i128).clamp(0, u64::MAX as i128) as u64), c.exp, t, "short-exact-tie", true),
                _ => (cap(r.a), (r.b % 800) as i32 - 400, t, "uniform", false),
            }
        }
        2 => {
            let c = gen::g_e(fmt, r);
            let w = std::str::from_utf8(&c.int).ok().and_then(|s| s.parse::<u64>().ok());
            match (w, c.frac.is_empty()) {
                (Some(w), true) => (cap(w), c.exp, t, "seam", true),
                _ => (cap(r.a), (r.b % 800) as i32 - 400, t, "uniform", false),
            }
        }
        3 => {
            // uniform over bit lengths x q in [-400, 400]; for t the realistic 19-digit significands
            let w = if t && r.k[1] % 2 == 0 { 1_000_000_000_000_000_000 + r.a % 9_000_000_000_000_000_000 } else { r.a >> (r.k[1] % 64) };
            (cap(w), (r.b % 801) as i32 - 400, t, "uniform", false)
        }
        4 => {
            let ex: [i32; 14] = [i32::MIN, i32::MIN + 1, -1_000_000, -0x1001, -0x1000, -0xfff, -401, 401, 0xfff, 0x1000, 0x1001, 1_000_000, i32::MAX - 1, i32::MAX];
            (cap(r.a >> (r.k[1] % 64)), ex[(r.b % 14) as usize], t, "extreme-exponent", false)
        }
        _ => {
            let k = r.k[1] % 64;
            let base = match r.k[2] % 3 {
                0 => 1u64 << k,
                1 => 10u64.pow(k % 20),
                _ => u64::MAX >> k,
            };
            let d = (r.k[3] % 3) as i64 - 1;
            let w = (base as i128 + d as i128).clamp(0, u64::MAX as i128) as u64;
            (cap(w), (r.b % 801) as i32 - 400, t, "power-edge", true)
        }
    }
}

pub fn run(ctx: &Ctx) -> i32 {
    let mut rep = Report::new(
        "parse::moderate_path::<F>(&Number{mantissa: w, exponent: q, many_digits: t}) is called directly in all 8 \
         configurations (Eisel-Lemire in the 4 non-compact ones, Bellerophon in the 4 compact ones) for f32 and f64. \
         A definite answer (exp >= 0) is packed with extended_to_float and judged by the exact oracle: for t=false it \
         must be the correctly rounded w*10^q; for t=true it must be correct for every real in [w,w+1)*10^q (left \
         endpoint parity-aware, (w+1)*10^q <= upper boundary). Declines are always acceptable and counted. Inputs: \
         the complete table of continued-fraction closest approaches (every q with a window, every binade, the best \
         candidates per binade, each with deltas -3..3 and both flags - enumerated, not sampled: a seed-chosen third \
         of the table in quick, all of it in thorough), plus generated short exact ties, algorithm seams, powers of \
         two/ten +-1, uniform significands x q in [-400,400], and i32-extreme exponents. Non-trivial: a case from a \
         boundary-constructed family (closest approach closer than 2^-40 half-ulps or perturbed by delta, exact tie, \
         seam, power edge), or any case some stage declined; distinct by (format, w, q, t).",
    );
    rep.assume("t=true implies 1 <= w <= u64::MAX-1: callers never pass a zero significand with the truncation flag (src/parse.rs skips leading fraction zeros for exactly that reason) and the stage adds 1 to w (real callers have w < 10^19)");
    let mut sweep_distinct = 0u64;
    // 1. enumerated sweep over the closest-approach table
    let t = hard_table();
    let third = match ctx.sweep_tier() {
        Tier::Quick => Some(ctx.seed % 3),
        Tier::Thorough => None,
    };
    for (fmt, tab) in [(Fmt::F64, &t.f64), (Fmt::F32, &t.f32)] {
        let items: Vec<Hard> = tab.iter().copied().filter(|h| third.map_or(true, |m| (h.q.rem_euclid(3)) as u64 == m)).collect();
        let n = items.len() as u64 * 14;
        let r = run_sweep(n, ctx.threads, |i, stats| {
            let h = items[(i / 14) as usize];
            let delta = (i % 7) as i64 - 3;
            let tflag = (i % 14) >= 7;
            let w = (h.w as i128 + delta as i128).clamp(if tflag { 1 } else { 0 }, (u64::MAX - 1) as i128) as u64;
            let (_def, dec) = check_one(fmt, w, h.q, tflag, stats)?;
            stats.class("closest-approach (enumerated)");
            if h.closeness >= 40 || dec > 0 {
                stats.nontrivial.push(gen::mix(w ^ ((h.q as u64) << 40) ^ ((tflag as u64) << 63) ^ fmt as u64));
                if h.closeness >= 60 {
                    stats.count("closer-than-2^-60-half-ulps");
                }
                stats.sample(&format!("{} closest-approach", fmt.name()), || json!({"w": w, "q": h.q, "truncated": tflag, "closeness_log2": h.closeness, "declined_in_configs": dec}));
            }
            Ok(())
        });
        rep.absorb(r);
        rep.extra.insert(format!("closest_approach_table_{}", fmt.name()), json!({"entries": tab.len(), "swept": items.len(), "complete": third.is_none()}));
    }
    // 1b. enumerated small significands: every w < 2^21 x q in [-30, 40], exact flag (products that are
    // exactly or almost exactly representable: the class where a stage may skip error accounting);
    // a seed-chosen residue class of w in quick, all of them in thorough
    {
        let stride: u64 = match ctx.sweep_tier() {
            Tier::Quick => 8,
            Tier::Thorough => 1,
        };
        let off = ctx.seed % stride;
        let wmax = 1u64 << 21;
        let per_w = 71u64 * 2;
        let count = ((wmax - off + stride - 1) / stride) * per_w;
        let r = run_sweep(count, ctx.threads, |i, stats| {
            let w = off + (i / per_w) * stride;
            let q = ((i % per_w) / 2) as i32 - 30;
            let fmt = if i % 2 == 0 { Fmt::F64 } else { Fmt::F32 };
            check_one(fmt, w, q, false, stats)?;
            if i % 1_000_003 == 0 {
                stats.sample("small significand sweep", || json!({"w": w, "q": q, "format": fmt.name()}));
            }
            Ok(())
        });
        let n = r.stats.evaluations;
        rep.absorb(r);
        rep.stats.class("small-significand sweep (enumerated)");
        rep.stats.add("small-significand-sweep-points", n);
        rep.extra.insert("small_significand_sweep".into(), json!({"w_below": wmax, "q_range": [-30, 40], "stride": stride, "offset": off, "points": n, "complete": stride == 1}));
        sweep_distinct += n;
    }
    // 1c. every (w, q) whose first Eisel-Lemire product has low word u64::MAX (constructed by modular
    // inversion, gen::lemire_lo_max_pairs): the stage's "failed to approximate" fallback
    {
        let pairs = gen::lemire_lo_max_pairs();
        let n = pairs.len() as u64 * 4;
        let r = run_sweep(n, ctx.threads.min(4), |i, stats| {
            let (w, q) = pairs[(i / 4) as usize];
            let fmt = if i % 2 == 0 { Fmt::F64 } else { Fmt::F32 };
            let t = (i % 4) >= 2;
            let w = if t { w.min(u64::MAX - 1) } else { w };
            check_one(fmt, w, q, t, stats)?;
            stats.sample("lemire lo==MAX", || json!({"w": w, "q": q, "truncated": t, "format": fmt.name(), "outside_safe_exponent_range": !(-27..=55).contains(&q)}));
            Ok(())
        });
        sweep_distinct += r.stats.evaluations;
        rep.absorb(r);
        rep.stats.class("lemire lo==MAX (enumerated)");
        rep.extra.insert(
            "lemire_lo_max".into(),
            json!({"pairs": pairs.len(), "outside_safe_exponent_range": pairs.iter().filter(|(_, q)| !(-27..=55).contains(q)).count(),
                   "nineteen_digit_decimal_significands": pairs.iter().filter(|(w, _)| *w < 10_000_000_000_000_000_000).count()}),
        );
    }
    // 1d. the second-product variant of the same condition (the low bits of the first product's high word
    // all ones AND the corrected low word u64::MAX): exhaustive number-theoretic search over every table
    // entry and every 64-bit significand; any pair found is checked like the others
    {
        let pairs = gen::lemire_second_product_pairs();
        for &(w, q) in pairs.iter() {
            for fmt in [Fmt::F64, Fmt::F32] {
                for t in [false, true] {
                    let mut st = crate::runner::Stats::default();
                    if let Err(f) = check_one(fmt, if t { w.min(u64::MAX - 1) } else { w }, q, t, &mut st) {
                        rep.violations.push((None, f));
                    }
                    rep.stats.merge(st);
                    rep.stats.evaluations += 1;
                }
            }
        }
        rep.extra.insert("lemire_second_product_search".into(), json!({"method": "smallest x with l <= a*x mod 2^137 (2^166 for f32) <= r, iterated over [2^63, 2^64), all 651 table entries", "pairs_found": pairs.len(), "exhaustive": true}));
    }
    // 1e. enumerated special significands x every decimal exponent x both flags: w in {2^k - 1, 2^k, 2^k + 1}
    // (k = 1..64: the normalising shift, `w + 1` carrying out of the word, single-bit products) and
    // {10^k - 1, 10^k, 10^k + 1} (k = 1..19), q from below the underflow cut-off to above the overflow cut-off
    {
        let mut ws: Vec<u64> = Vec::new();
        for k in 1..=64u32 {
            let p = if k == 64 { 0u64 } else { 1u64 << k };
            ws.extend([p.wrapping_sub(1), p, p.wrapping_add(1)]);
        }
        for k in 1..=19u32 {
            let p = 10u64.pow(k);
            ws.extend([p - 1, p, p + 1]);
        }
        ws.retain(|&w| w != 0);
        ws.sort_unstable();
        ws.dedup();
        let (qlo, qhi) = (-370i32, 330i32);
        let per_w = (qhi - qlo + 1) as u64 * 4;
        let n = ws.len() as u64 * per_w;
        let r = run_sweep(n, ctx.threads, |i, stats| {
            let w = ws[(i / per_w) as usize];
            let j = i % per_w;
            let q = qlo + (j / 4) as i32;
            let fmt = if j % 2 == 0 { Fmt::F64 } else { Fmt::F32 };
            let t = (j % 4) >= 2;
            if t && w == u64::MAX {
                return Ok(());
            }
            check_one(fmt, w, q, t, stats)?;
            if i % 100_003 == 0 {
                stats.sample("special significand sweep", || json!({"w": w, "q": q, "truncated": t, "format": fmt.name()}));
            }
            Ok(())
        });
        let m = r.stats.evaluations;
        rep.absorb(r);
        rep.stats.class("special-significand sweep (enumerated)");
        rep.extra.insert("special_significand_sweep".into(), json!({"significands": ws.len(), "q_range": [qlo, qhi], "points": m, "complete": true}));
        sweep_distinct += m;
    }
    // 1f. the carry boundary of the second multiplication (gen::lemire_carry_table: per exponent and bit length the
    // significands of 15/16/17/19 digits whose 192-bit product is closest to wrapping), every entry, both formats,
    // exact and (19 digits) truncated
    {
        if let Err(e) = gen::validate_carry_table() {
            eprintln!("HARNESS-ERROR property=C11 {e}");
            return 2;
        }
        let tab = gen::lemire_carry_table();
        let n = tab.len() as u64 * 4;
        let r = run_sweep(n, ctx.threads, |i, stats| {
            let e = tab[(i / 4) as usize];
            let fmt = if i % 2 == 0 { Fmt::F64 } else { Fmt::F32 };
            let t = (i % 4) >= 2;
            if t && e.digits != 19 {
                return Ok(());
            }
            check_one(fmt, e.w, e.q, t, stats)?;
            if i % 10_007 == 0 {
                stats.sample("lemire carry boundary", || json!({"w": e.w, "q": e.q, "digits": e.digits, "carried": e.carried, "truncated": t, "format": fmt.name()}));
            }
            Ok(())
        });
        let m = r.stats.evaluations;
        rep.absorb(r);
        rep.stats.class("lemire second-product carry boundary (enumerated)");
        rep.extra.insert("lemire_carry_boundary".into(), json!({"entries": tab.len(), "points": m, "complete": true}));
        sweep_distinct += m;
    }
    // 2. generated cases
    let cases = ctx.cases(1_500_000, 100_000_000);
    let r = run_recipes(ctx.seed, cases, ctx.threads, 11, |r, stats| {
        let fmt = if r.sel[7] & 1 == 0 { Fmt::F64 } else { Fmt::F32 };
        let (w, q, t, class, boundary) = from_recipe(fmt, r);
        stats.class(class);
        let (_def, dec) = check_one(fmt, w, q, t, stats)?;
        if boundary || dec > 0 {
            stats.nontrivial.push(gen::mix(w ^ ((q as u64) << 40) ^ ((t as u64) << 63) ^ fmt as u64));
            stats.sample(&format!("{} {}", fmt.name(), class), || json!({"w": w, "q": q, "truncated": t, "declined_in_configs": dec}));
        }
        Ok(())
    });
    rep.absorb(r);
    {
        // enumerated points are distinct by construction
        let base = rep.stats.distinct_nontrivial();
        rep.extra.insert("distinct_nontrivial_override".into(), json!(base + sweep_distinct));
    }
    for k in ["lemire:f64:definite", "lemire:f64:declined", "bellerophon:f64:definite", "bellerophon:f64:declined", "lemire:f32:declined", "bellerophon:f32:declined"] {
        require_counter(&mut rep, k, 1000);
    }
    finish(ctx, rep)
}

pub fn replay(v: &Value) -> Result<bool, String> {
    let c = &v["case"];
    let fmt = match c["format"].as_str() {
        Some("f32") => Fmt::F32,
        Some("f64") => Fmt::F64,
        _ => return Err("replay: missing format".into()),
    };
    let w = c["w"].as_u64().ok_or("w")?;
    let q = c["q"].as_i64().ok_or("q")? as i32;
    let t = c["truncated"].as_bool().ok_or("truncated")?;
    let mut st = Stats::default();
    match check_one(fmt, w, q, t, &mut st) {
        Ok((d, n)) => {
            println!("replay: w={w} q={q} t={t}: {d} definite (all correct), {n} declined");
            Ok(false)
        }
        Err(f) => {
            println!("replay: {}", f.message);
            Ok(true)
        }
    }
}
