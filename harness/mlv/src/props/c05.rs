//! C05: all feature configurations return bit-identical results (differential).

use super::common::{account, parse_all, raw_detail};
use crate::cfgs::CFGS;
use crate::gen::{self, Limits};
use crate::oracle::Fmt;
use crate::runner::{finish, require_counter, run_recipes, Ctx, Failure, Report};
use serde_json::json;

pub fn run(ctx: &Ctx) -> i32 {
    let lim: Limits = ctx.tier.pick(gen::QUICK, gen::THOROUGH);
    let mut rep = Report::new(
        "Differential: every generated input (the C01/C02 mixture for both formats: midpoints, closest approaches, seams, \
         range ends, long tails, shaped random) is parsed in all 8 separately compiled feature configurations and the 8 \
         results are compared bit for bit, plus the default and the compact configuration built a second time \
         without the harness's `verif` hook feature (what a user compiles); a panic in one configuration only is a difference too. No reference value is \
         used. Non-trivial: the moderate stage declined (big-integer path) in the default or the compact configuration, \
         or the fast path ran with a non-zero exponent (table vs powf/powd vs bundled libm), or digits were truncated, \
         or the result is at a range end; distinct by fingerprint of (format, integer, fraction, exponent).",
    );
    rep.assume("the 8 configurations are the 8 shim crates (std/compact/alloc on/off) compiled from /repo/src in the same process; 32-bit-limb targets cannot be run here");
    let cases = ctx.cases(2_400_000, 120_000_000);
    let r = run_recipes(ctx.seed, cases, ctx.threads, 5, |r, stats| {
        let fmt = if r.sel[7] & 1 == 0 { Fmt::F64 } else { Fmt::F32 };
        let c = gen::mixed(fmt, r, lim);
        let res = parse_all(fmt, &c.int, &c.frac, c.exp, "C05")?;
        for i in 1..8 {
            if res[i] != res[0] {
                let all: Vec<_> = CFGS.iter().zip(res.iter()).map(|(c, b)| json!({"config": c.name, "bits": fmt.hex(*b)})).collect();
                return Err(Failure::violation(
                    format!(
                        "configurations disagree on {}.{}e{} as {}: {}={} but {}={}",
                        gen::abbreviate(&c.int), gen::abbreviate(&c.frac), c.exp, fmt.name(),
                        CFGS[0].name, fmt.hex(res[0]), CFGS[i].name, fmt.hex(res[i])
                    ),
                    format!("differ:{}:{}", CFGS[i].name, fmt.name()),
                    raw_detail(fmt, "*", &c.int, &c.frac, c.exp, json!({"results": all})),
                ));
            }
        }
        // the default and the compact configuration once more, built without the `verif` hook feature (exactly
        // what a user of the crate compiles): must agree with their hooked twins
        for which in 0..2usize {
            let got = crate::runner::catch(|| match fmt {
                Fmt::F32 => mlc::plain::parse32(which, &c.int, &c.frac, c.exp),
                Fmt::F64 => mlc::plain::parse64(which, &c.int, &c.frac, c.exp),
            });
            if got != Ok(res[which]) {
                return Err(Failure::violation(
                    format!(
                        "{} disagrees with the hooked build on {}.{}e{} as {}: {:?} vs {}",
                        mlc::plain::NAMES[which], gen::abbreviate(&c.int), gen::abbreviate(&c.frac), c.exp, fmt.name(), got.as_ref().map(|b| fmt.hex(*b)), fmt.hex(res[which])
                    ),
                    format!("differ:plain-{}:{}", which, fmt.name()),
                    raw_detail(fmt, "*", &c.int, &c.frac, c.exp, json!({"plain_build": mlc::plain::NAMES[which], "plain_result": format!("{:?}", got.map(|b| fmt.hex(b))), "hooked_result": fmt.hex(res[which])})),
                ));
            }
        }
        stats.count("plain-build-comparisons");
        let nt = account(fmt, &c, res[0], stats, false);
        let p = CFGS[0].path(fmt, &c.int, &c.frac, c.exp);
        if p.fast && p.exponent != 0 {
            stats.count("fast-path-nonzero-exponent");
            if !nt {
                stats.nontrivial.push(c.fingerprint() ^ fmt as u64);
            }
        }
        Ok(())
    });
    rep.absorb(r);
    rep.extra.insert("configurations".into(), json!(CFGS.iter().map(|c| c.name).collect::<Vec<_>>()));
    require_counter(&mut rep, "fast-path-nonzero-exponent", 1000);
    require_counter(&mut rep, "path[compact]:slow-negative", 1000);
    require_counter(&mut rep, "path[default]:slow-positive", 1000);
    finish(ctx, rep)
}

/// Replay: re-parse in all configurations and compare.
pub fn replay(v: &serde_json::Value) -> Result<bool, String> {
    let case = &v["case"];
    let fmt = match case["format"].as_str() {
        Some("f32") => Fmt::F32,
        Some("f64") => Fmt::F64,
        _ => return Err("replay: missing format".into()),
    };
    let int = case["integer"].as_str().ok_or("integer")?.as_bytes().to_vec();
    let frac = case["fraction"].as_str().ok_or("fraction")?.as_bytes().to_vec();
    let exp = case["exponent"].as_i64().ok_or("exponent")? as i32;
    match parse_all(fmt, &int, &frac, exp, "replay") {
        Err(f) => {
            println!("replay: {}", f.message);
            Ok(true)
        }
        Ok(res) => {
            for (c, b) in CFGS.iter().zip(res.iter()) {
                println!("replay: config {} -> {}", c.name, fmt.hex(*b));
            }
            let mut bad = res.iter().any(|b| *b != res[0]);
            for which in 0..2usize {
                let got = match fmt {
                    Fmt::F32 => mlc::plain::parse32(which, &int, &frac, exp),
                    Fmt::F64 => mlc::plain::parse64(which, &int, &frac, exp),
                };
                println!("replay: {} -> {}", mlc::plain::NAMES[which], fmt.hex(got));
                bad |= got != res[which];
            }
            Ok(bad)
        }
    }
}
