//! C16: the result is a pure function of the bytes and the exponent.

use super::common::raw_detail;
use crate::cfgs::{Cfg, CFGS};
use crate::gen::{self, pick_w, Case, Limits};
use crate::oracle::Fmt;
use crate::runner::{catch, finish, require_counter, run_recipes_opt, Ctx, Failure, Report, Stats};
use serde_json::json;
use std::sync::{Arc, Barrier};

const SHAPES: [&str; 15] = [
    "slice",
    "chain-2",
    "chain-4",
    "filter-separators",
    "vecdeque-wrapped",
    "rev-of-reversed",
    "skip-take-padded",
    "step_by-2",
    "custom-chunk-list",
    "flat_map-chunks+single-byte-arrays",
    "shared digit table (equal digits share one address)",
    "chain-6 (iterator type wider than 64 bytes)",
    "fat custom iterator (256 bytes of state)",
    "boxed slice iterator (cursor behind a pointer)",
    "rope iterator with its cursors in a Vec",
];

fn gen_case(fmt: Fmt, r: &gen::Recipe, lim: Limits) -> Case {
    match pick_w(r.sel[0], &[30, 25, 20, 10, 15]) {
        0 => gen::g_b(fmt, r, lim),
        1 => gen::g_g(fmt, r, lim),
        2 => gen::g_c(fmt, r, lim),
        3 => gen::g_f(fmt, r, lim),
        _ => gen::g_a(fmt, r, lim),
    }
}

/// Overwrite 32 KiB of stack below the caller with a pattern: `Fill(v)` = every word v (all-zero and all-one
/// fills make a read of stale / never-written memory change the result deterministically: zeros are what the
/// correct code would have written there), `Mixed(p)` = position-dependent words.
#[derive(Clone, Copy)]
enum Poison {
    Fill(u64),
    Mixed(u64),
}

#[inline(never)]
fn poison_stack(p: Poison) -> u64 {
    let mut a = [0u64; 4096];
    for (i, x) in a.iter_mut().enumerate() {
        *x = match p {
            Poison::Fill(v) => v,
            Poison::Mixed(pattern) => pattern.rotate_left(i as u32 % 64) ^ i as u64,
        };
    }
    let a = std::hint::black_box(a);
    a[match p {
        Poison::Fill(v) => (v % 4096) as usize,
        Poison::Mixed(v) => (v % 4096) as usize,
    }]
}

fn differ(fmt: Fmt, cfg: &Cfg, c: &Case, what: &str, base: u64, got: Result<u64, String>) -> Failure {
    Failure::violation(
        format!(
            "config {}: {}.{}e{} as {} gives {} from plain slice iterators but {:?} via {}",
            cfg.name, gen::abbreviate(&c.int), gen::abbreviate(&c.frac), c.exp, fmt.name(), fmt.hex(base), got.as_ref().map(|b| fmt.hex(*b)), what
        ),
        format!("impure:{}", what.split(' ').next().unwrap_or("")),
        raw_detail(fmt, cfg.name, &c.int, &c.frac, c.exp, json!({"via": what, "baseline": fmt.hex(base), "observed": format!("{:?}", got.map(|b| fmt.hex(b)))})),
    )
}

fn check_case(fmt: Fmt, c: &Case, r: &gen::Recipe, stats: &mut Stats) -> Result<(), Failure> {
    let salt = gen::mix(r.b ^ 0x16);
    for cfg in CFGS.iter() {
        // baseline: fresh Vecs, plain slice iterators
        let (bi, bf) = (c.int.clone(), c.frac.clone());
        let base = catch(|| cfg.parse(fmt, &bi, &bf, c.exp)).map_err(|m| differ(fmt, cfg, c, "baseline panic", 0, Err(m)))?;
        // 1. iterator shapes
        let shapes = match fmt {
            Fmt::F32 => cfg.shapes32,
            Fmt::F64 => cfg.shapes64,
        };
        for s in 1..15u32 {
            let got = catch(|| shapes(&c.int, &c.frac, c.exp, s, salt.rotate_left(s)));
            if got != Ok(base) {
                return Err(differ(fmt, cfg, c, &format!("shape:{}", SHAPES[s as usize]), base, got));
            }
            stats.count(&format!("shape:{}", SHAPES[s as usize]));
        }
        // 2. addresses: offsets 0..15 in a larger heap buffer with guards, a stack array, a Box
        let off = (salt % 16) as usize;
        let mut big = vec![0xA5u8; off];
        big.extend_from_slice(&c.int);
        big.extend(std::iter::repeat(0x5A).take(7 + off));
        let fstart = big.len();
        big.extend_from_slice(&c.frac);
        big.extend(std::iter::repeat(b'9').take(9)); // adjacent digits must not be read
        let got = catch(|| cfg.parse(fmt, &big[off..off + c.int.len()], &big[fstart..fstart + c.frac.len()], c.exp));
        if got != Ok(base) {
            return Err(differ(fmt, cfg, c, &format!("address: heap buffer at offset {off} next to guard bytes"), base, got));
        }
        if c.int.len() + c.frac.len() <= 1000 {
            let mut arr = [b'7'; 1040];
            let o2 = ((salt >> 8) % 16) as usize;
            arr[o2..o2 + c.int.len()].copy_from_slice(&c.int);
            let f0 = o2 + c.int.len() + 3;
            arr[f0..f0 + c.frac.len()].copy_from_slice(&c.frac);
            let got = catch(|| cfg.parse(fmt, &arr[o2..o2 + c.int.len()], &arr[f0..f0 + c.frac.len()], c.exp));
            if got != Ok(base) {
                return Err(differ(fmt, cfg, c, "address: stack array", base, got));
            }
        }
        let (boxed_i, boxed_f): (Box<[u8]>, Box<[u8]>) = (c.int.clone().into_boxed_slice(), c.frac.clone().into_boxed_slice());
        let got = catch(|| cfg.parse(fmt, &boxed_i, &boxed_f, c.exp));
        if got != Ok(base) {
            return Err(differ(fmt, cfg, c, "address: boxed slices", base, got));
        }
        stats.count("address-variants");
        // 3. history: other parses (both formats, slow path, garbage under catch_unwind) + stack poison, then the same call
        let mut h = salt;
        for _ in 0..(1 + salt % 4) {
            h = gen::mix(h);
            let other: Vec<u8> = (0..(1 + h % 800)).map(|i| b'0' + ((gen::mix(h ^ i) % 10) as u8)).collect();
            let ofmt = if h & 1 == 0 { Fmt::F32 } else { Fmt::F64 };
            let _ = catch(|| cfg.parse(ofmt, &other[..other.len() / 2], &other[other.len() / 2..], (h >> 40) as i32 % 700 - 350));
            if h % 3 == 0 {
                let garbage: Vec<u8> = (0..(h % 64)).map(|i| (gen::mix(h ^ i ^ 0xff) >> 8) as u8).collect();
                let _ = catch(|| cfg.parse(ofmt, &garbage, &[], (h >> 30) as i32));
            }
        }
        for (p, what) in [
            (Poison::Mixed(gen::mix(h)), "history: after other parses and a stack-poisoning pass"),
            (Poison::Fill(0), "history: stack pre-filled with zeros"),
            (Poison::Fill(u64::MAX), "history: stack pre-filled with ones"),
            (Poison::Mixed(!gen::mix(h)), "history: second stack pattern"),
        ] {
            std::hint::black_box(poison_stack(p));
            let got = catch(|| cfg.parse(fmt, &c.int, &c.frac, c.exp));
            if got != Ok(base) {
                return Err(differ(fmt, cfg, c, what, base, got));
            }
        }
        stats.count("history-variants");
    }
    Ok(())
}

fn concurrency(ctx: &Ctx, rep: &mut Report, lim: Limits) {
    // a shared read-only list of inputs, sequential baseline, then N threads in shuffled orders behind a barrier
    let n_inputs = ctx.tier.pick(4_000usize, 20_000usize);
    let rounds = ctx.tier.pick(2usize, 10usize);
    let mut inputs: Vec<(Fmt, Case)> = Vec::with_capacity(n_inputs);
    let mut s = ctx.seed ^ 0xc0ffee;
    for _ in 0..n_inputs {
        s = gen::mix(s);
        let r = gen::Recipe {
            sel: [(s >> 3) as u16, (s >> 11) as u16, (s >> 19) as u16, (s >> 27) as u16, (s >> 35) as u16, (s >> 43) as u16, (s >> 5) as u16, (s >> 13) as u16],
            a: gen::mix(s ^ 1),
            b: gen::mix(s ^ 2),
            k: [(s >> 7) as u32, (s >> 17) as u32, (gen::mix(s) >> 9) as u32, (gen::mix(s) >> 21) as u32],
            digits: (0..40).map(|i| (gen::mix(s ^ (i + 9)) % 10) as u8).collect(),
        };
        let fmt = if s & 1 == 0 { Fmt::F64 } else { Fmt::F32 };
        inputs.push((fmt, gen_case(fmt, &r, lim)));
    }
    let seq: Vec<[u64; 8]> = inputs
        .iter()
        .map(|(fmt, c)| {
            let mut o = [0u64; 8];
            for (i, cfg) in CFGS.iter().enumerate() {
                o[i] = cfg.parse(*fmt, &c.int, &c.frac, c.exp);
            }
            o
        })
        .collect();
    let inputs = Arc::new(inputs);
    let seq = Arc::new(seq);
    let threads = ctx.threads.max(2);
    let mut mismatches: Vec<(usize, usize, u64)> = Vec::new();
    for round in 0..rounds {
        let barrier = Arc::new(Barrier::new(threads));
        let handles: Vec<_> = (0..threads)
            .map(|t| {
                let inputs = inputs.clone();
                let seq = seq.clone();
                let barrier = barrier.clone();
                let seed = ctx.seed;
                std::thread::Builder::new()
                    .stack_size(32 << 20)
                    .spawn(move || {
                        // thread-specific order: affine permutation of the index space
                        let n = inputs.len();
                        let mut stride = (gen::mix(seed ^ (t as u64) << 8 ^ round as u64) as usize % n) | 1;
                        while gcd(stride, n) != 1 {
                            stride += 2;
                        }
                        let start = gen::mix(seed ^ t as u64) as usize % n;
                        barrier.wait();
                        let mut bad = Vec::new();
                        for j in 0..n {
                            let i = (start + j * stride) % n;
                            let (fmt, c) = &inputs[i];
                            for (ci, cfg) in CFGS.iter().enumerate() {
                                let got = cfg.parse(*fmt, &c.int, &c.frac, c.exp);
                                if got != seq[i][ci] {
                                    bad.push((i, ci, got));
                                }
                            }
                        }
                        bad
                    })
                    .unwrap()
            })
            .collect();
        for h in handles {
            mismatches.extend(h.join().unwrap());
        }
    }
    rep.stats.evaluations += (n_inputs * rounds * threads) as u64;
    rep.stats.add("concurrent-parses", (n_inputs * rounds * threads * 8) as u64);
    rep.extra.insert("concurrency".into(), json!({"threads": threads, "inputs": n_inputs, "rounds": rounds, "note": "real threads behind a barrier; the harness does not own the schedule"}));
    if let Some(&(i, ci, got)) = mismatches.first() {
        let (fmt, c) = &inputs[i];
        rep.violations.push((None, differ(*fmt, &CFGS[ci], c, "concurrency: call from one of several threads", seq[i][ci], Ok(got))));
    }
}

fn gcd(a: usize, b: usize) -> usize {
    if b == 0 {
        a
    } else {
        gcd(b, a % b)
    }
}

pub fn run(ctx: &Ctx) -> i32 {
    let lim: Limits = ctx.tier.pick(gen::QUICK, Limits { long: 10_000, huge: 100_000 });
    let mut rep = Report::new(
        "Differential against the baseline parse_float(int.iter(), frac.iter(), e) on fresh Vecs, per configuration \
         (all 8) and format: (1) fourteen other fused, cloneable iterator shapes yielding the same bytes (chain of 2 and of \
         4 slices at generated cut points, filter over interleaved separators, wrapped VecDeque, rev over reversed \
         storage, skip/take over padded storage, step_by(2), a hand-written chunk-list iterator with empty chunks, \
         flat_map over chunks + map over single-byte arrays, map through one shared digit table so that equal digits have equal addresses, a chain of six slices and a 256-byte custom iterator - wide iterator types, Box<slice::Iter> and a rope iterator with its cursors in a Vec - position behind a pointer); (2) the same bytes at offsets 0..15 inside a larger heap \
         buffer between guard bytes and adjacent digits, in a stack array, in boxed slices; (3) after a generated \
         history of other parses (other format, big-integer path, garbage bytes under catch_unwind) and two \
         stack-poisoning passes (position-dependent words, all zeros, all ones - so that a read of stale or never-written stack memory changes the outcome deterministically); (4) 16 threads parsing a shared list in thread-specific orders behind a barrier, \
         compared with the sequential results. Inputs are weighted to the big-integer path and truncated digits (the \
         code that clones and re-walks the iterators). Non-trivial: big-integer path or many_digits in the default \
         or compact configuration; distinct by fingerprint.",
    );
    rep.assume("only fused, cloneable iterators are generated: the code calls next() again after None in parse_number, so unfused iterators are outside 'well-behaved'");
    rep.assume("sub-check 4 runs real threads; it would expose shared mutable state, not a rare interleaving (the crate has no synchronisation points to drive)");
    let cases = ctx.cases(120_000, 6_000_000);
    let r = run_recipes_opt(ctx.seed, cases, ctx.threads, 16, true, |r, stats| {
        let fmt = if r.sel[7] & 1 == 0 { Fmt::F64 } else { Fmt::F32 };
        let c = gen_case(fmt, r, lim);
        check_case(fmt, &c, r, stats)?;
        let pd = CFGS[0].path(fmt, &c.int, &c.frac, c.exp);
        let pc = CFGS[1].path(fmt, &c.int, &c.frac, c.exp);
        stats.class(&format!("{} / {}", c.family, c.variant));
        if pd.slow || pc.slow || pd.many_digits {
            if pd.slow || pc.slow {
                stats.count("big-integer-path");
            }
            if pd.many_digits {
                stats.count("many_digits");
            }
            stats.nontrivial.push(c.fingerprint() ^ fmt as u64);
            stats.sample(&format!("{} {}", fmt.name(), c.family), || c.describe());
        }
        Ok(())
    });
    rep.absorb(r);
    if rep.violations.is_empty() {
        concurrency(ctx, &mut rep, lim);
    }
    require_counter(&mut rep, "big-integer-path", 1000);
    require_counter(&mut rep, "many_digits", 1000);
    finish(ctx, rep)
}

pub fn replay(v: &serde_json::Value) -> Result<bool, String> {
    let case = &v["case"];
    let fmt = match case["format"].as_str() {
        Some("f32") => Fmt::F32,
        Some("f64") => Fmt::F64,
        _ => return Err("replay: missing format".into()),
    };
    let c = Case {
        int: case["integer"].as_str().ok_or("integer")?.as_bytes().to_vec(),
        frac: case["fraction"].as_str().ok_or("fraction")?.as_bytes().to_vec(),
        exp: case["exponent"].as_i64().ok_or("exponent")? as i32,
        family: "replay",
        variant: "",
        layout: "",
        expect: None,
    };
    let r = crate::gen::Recipe::from_json(&v["recipe"]).unwrap_or(gen::Recipe { sel: [0; 8], a: 1, b: 2, k: [0; 4], digits: vec![] });
    let mut st = Stats::default();
    match check_case(fmt, &c, &r, &mut st) {
        Ok(()) => Ok(false),
        Err(f) => {
            println!("replay: {}", f.message);
            Ok(true)
        }
    }
}
