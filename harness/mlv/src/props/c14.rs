//! C14: every power-of-ten / power-of-five constant equals its definition.
//! Finite: enumerated completely on every run (quick = thorough).

use crate::cfgs::{BigOp, BigOut, Cfg, CFGS};
use crate::nat::{pow5, Nat};
use crate::oracle::{self, Dec, Fmt};
use crate::runner::{catch, finish, Ctx, Failure, Report, Stats};
use serde_json::json;

fn fail(cfg: &Cfg, table: &str, index: i64, expected: String, observed: String) -> Failure {
    Failure::violation(
        format!("config {}: {}[{}] = {} but its definition gives {}", cfg.name, table, index, observed, expected),
        format!("table:{}:{}", table, index),
        json!({"kind": "table", "config": cfg.name, "table": table, "index": index, "expected": expected, "observed": observed}),
    )
}

/// floor(log2(10^q))
fn floor_log2_pow10(q: i64) -> i64 {
    if q >= 0 {
        Nat::pow_small(10, q as u32).bits() as i64 - 1
    } else {
        // 10^|q| is not a power of two: floor(log2 10^q) = -ceil(log2 10^|q|) = -bits(10^|q|)
        -(Nat::pow_small(10, (-q) as u32).bits() as i64)
    }
}

/// Eisel-Lemire 128-bit significand for 5^q, as specified in etc/lemire_table.py.
pub fn lemire_entry(q: i32) -> (u64, u64) {
    let c: Nat = if q < 0 {
        let p5 = pow5().get((-q) as usize);
        // smallest z with 2^z >= 5^-q
        let mut z = p5.bits();
        if Nat::pow2(z - 1).cmp(p5) != std::cmp::Ordering::Less {
            z -= 1;
        }
        let b = if q >= -27 { z + 127 } else { 2 * z + 128 };
        let (quot, _) = Nat::pow2(b).divrem(p5);
        let mut c = quot.add_small(1);
        while c.bits() > 128 {
            c = c.shr(1);
        }
        c
    } else {
        let p5 = pow5().get(q as usize);
        let b = p5.bits();
        if b <= 128 {
            p5.shl(128 - b)
        } else {
            p5.shr(b - 128)
        }
    };
    let v = c.to_u128().expect("128-bit entry");
    ((v >> 64) as u64, v as u64)
}

/// Truncated, normalised 64-bit significand of 10^k and its binary exponent.
fn bellerophon_entry(k: i64) -> (u64, i32) {
    let e = floor_log2_pow10(k) - 63;
    let mant = if k >= 0 {
        let n = Nat::pow_small(10, k as u32);
        if e >= 0 {
            n.shr(e as u64)
        } else {
            n.shl((-e) as u64)
        }
    } else {
        // floor(2^-e / 10^|k|)
        let (q, _) = Nat::pow2((-e) as u64).divrem(&Nat::pow_small(10, (-k) as u32));
        q
    };
    (mant.to_u64().expect("64-bit significand"), e as i32)
}

/// Round-to-nearest-even of an integer below 2^128 into `fmt` by plain integer arithmetic (no overflow to
/// infinity in the range used here).  Natively every result is cross-checked against the decimal oracle; under
/// the interpreter (32-bit-limb stage) only this cheap form runs.
fn round_u128(fmt: Fmt, v: u128) -> u64 {
    assert!(v != 0);
    let p = fmt.mbits() + 1;
    let bits = 128 - v.leading_zeros();
    let (m, e2) = if bits <= p {
        (v as u64, 0u32)
    } else {
        let sh = bits - p;
        let kept = (v >> sh) as u64;
        let rem = v & ((1u128 << sh) - 1);
        let half = 1u128 << (sh - 1);
        let up = rem > half || (rem == half && kept & 1 == 1);
        (kept + up as u64, sh)
    };
    // value = m * 2^e2, m < 2^p or m == 2^p after a carry
    let (m, e2) = if m == 1u64 << p { (m >> 1, e2 + 1) } else { (m, e2) };
    let top = 63 - m.leading_zeros(); // position of the leading bit of m
    let frac = (m << (fmt.mbits() - top)) & ((1u64 << fmt.mbits()) - 1);
    let exp = (e2 + top) as u64 + fmt.bias() as u64;
    let out = (exp << fmt.mbits()) | frac;
    if !cfg!(miri) {
        let d = Dec::from_nat(&Nat::from_u128(v), 0);
        assert!(oracle::expected_dec(fmt, &d) == out, "round_u128 disagrees with the oracle for {v}");
    }
    out
}

fn exact_pow10_bits(fmt: Fmt, e: u32) -> u64 {
    let bits = round_u128(fmt, 10u128.pow(e));
    if !cfg!(miri) {
        let d = Dec::from_nat(&Nat::pow_small(10, e), 0);
        assert!(oracle::exact(fmt, bits) == d, "10^{e} must be exactly representable in {}", fmt.name());
    }
    bits
}

/// On-demand powers (not table constants): float powers of ten via tables / std pow / the bundled libm, and the
/// integer powers of ten consumed by parse_mantissa's chunking (end-of-input and digit-limit exits) and by the
/// disguised fast path.  Cheap enough for the interpreted 32-bit-limb stage as well.
pub fn check_on_demand_powers(cfg: &'static Cfg, stats: &mut Stats) -> Result<u64, Failure> {
    let mut n = 0u64;
    // on-demand float powers (tables, std pow, bundled libm), every configuration
    for e in 0..=10usize {
        let want = exact_pow10_bits(Fmt::F32, e as u32);
        let got = (cfg.pow_fast32)(e);
        if got != want {
            return Err(fail(cfg, "<f32 as Float>::pow_fast_path", e as i64, Fmt::F32.hex(want), Fmt::F32.hex(got)));
        }
        n += 1;
    }
    for e in 0..=22usize {
        let want = exact_pow10_bits(Fmt::F64, e as u32);
        let got = (cfg.pow_fast64)(e);
        if got != want {
            return Err(fail(cfg, "<f64 as Float>::pow_fast_path", e as i64, Fmt::F64.hex(want), Fmt::F64.hex(got)));
        }
        n += 1;
    }
    stats.add("pow_fast_path(f32 0..=10, f64 0..=22)", 34);
    if let Some(_) = (cfg.libm_pow)(0) {
        for e in 0..=22u32 {
            let (g32, g64) = (cfg.libm_pow)(e).unwrap();
            if e <= 10 && g32 as u64 != exact_pow10_bits(Fmt::F32, e) {
                return Err(fail(cfg, "libm::powf(10,e)", e as i64, Fmt::F32.hex(exact_pow10_bits(Fmt::F32, e)), Fmt::F32.hex(g32 as u64)));
            }
            if g64 != exact_pow10_bits(Fmt::F64, e) {
                return Err(fail(cfg, "libm::powd(10,e)", e as i64, Fmt::F64.hex(exact_pow10_bits(Fmt::F64, e)), Fmt::F64.hex(g64)));
            }
            n += if e <= 10 { 2 } else { 1 };
        }
        stats.add("libm::powf/powd(10, e)", 34);
    }
    for k in 1..=19usize {
        // first chunk 1 0^18, then k sevens: value = 10^18 * 10^k + 77..7
        let mut digits = vec![b'1'];
        digits.extend(std::iter::repeat(b'0').take(18));
        digits.extend(std::iter::repeat(b'7').take(k));
        let (limbs, count) = (cfg.slow_parse_mantissa)(&digits, b"", 800);
        let want = Nat::from_digits(&digits.iter().map(|c| c - b'0').collect::<Vec<_>>());
        if Nat::from_limbs(&limbs) != want || count != digits.len() {
            return Err(fail(cfg, "int_pow_fast_path(k, Ten) via parse_mantissa", k as i64, want.to_string(), Nat::from_limbs(&limbs).to_string()));
        }
        n += 1;
    }
    stats.add("10^1..10^19 via parse_mantissa chunks", 19);
    for k in 1..=19usize {
        // the digit limit falls k digits into the second chunk and a non-zero digit follows: the last
        // temporary is flushed with 10^k from the "limit reached" exit (k = 19: chunk and limit coincide,
        // the only consumer of 10^19), then the truncated tail rounds up by one more digit
        let mut digits = vec![b'3'];
        digits.extend(std::iter::repeat(b'0').take(18));
        digits.extend(std::iter::repeat(b'6').take(k));
        let max_digits = digits.len();
        let mut input = digits.clone();
        input.extend(b"0005");
        for (int, frac) in [(&input[..], &b""[..]), (&input[..7], &input[7..])] {
            let (limbs, count) = (cfg.slow_parse_mantissa)(int, frac, max_digits);
            let mut want_digits: Vec<u8> = digits.iter().map(|c| c - b'0').collect();
            want_digits.push(1);
            let want = Nat::from_digits(&want_digits);
            if Nat::from_limbs(&limbs) != want || count != max_digits + 1 {
                return Err(fail(cfg, "int_pow_fast_path(k, Ten) via parse_mantissa at the digit limit", k as i64, want.to_string(), Nat::from_limbs(&limbs).to_string()));
            }
            n += 1;
        }
    }
    stats.add("10^1..10^19 via parse_mantissa at the digit limit (integer and split)", 38);
    for s in 1..=15i32 {
        let want = round_u128(Fmt::F64, 3 * 10u128.pow((22 + s) as u32));
        let got = (cfg.fast64)(3, 22 + s, false);
        if got != Some(want) {
            return Err(fail(cfg, "disguised fast path f64 (int 10^s)", s as i64, Fmt::F64.hex(want), format!("{:?}", got.map(|b| Fmt::F64.hex(b)))));
        }
        n += 1;
    }
    for s in 1..=7i32 {
        let want = round_u128(Fmt::F32, 10u128.pow((10 + s) as u32));
        let got = (cfg.fast32)(1, 10 + s, false);
        if got != Some(want) {
            return Err(fail(cfg, "disguised fast path f32 (int 10^s)", s as i64, Fmt::F32.hex(want), format!("{:?}", got.map(|b| Fmt::F32.hex(b)))));
        }
        n += 1;
    }
    stats.add("10^1..10^15 / 10^1..10^7 via the disguised fast path", 22);
    Ok(n)
}

pub fn check_cfg(cfg: &'static Cfg, stats: &mut Stats) -> Result<(), Failure> {
    let t = (cfg.tables)();
    let mut n = 0u64;
    let tag = |s: &str| format!("{}:{}", if cfg.compact { "compact" } else { "tables" }, s);
    if !cfg.compact {
        if t.smallest_pow5 != -342 || t.largest_pow5 != 308 || t.pow5_128.len() != 651 {
            return Err(fail(cfg, "POWER_OF_FIVE_128.range", 0, "-342..=308 (651 entries)".into(), format!("{}..={} ({} entries)", t.smallest_pow5, t.largest_pow5, t.pow5_128.len())));
        }
        for (i, &(hi, lo)) in t.pow5_128.iter().enumerate() {
            let q = i as i32 - 342;
            let want = lemire_entry(q);
            if (hi, lo) != want {
                return Err(fail(cfg, "POWER_OF_FIVE_128", q as i64, format!("(0x{:016x}, 0x{:016x})", want.0, want.1), format!("(0x{:016x}, 0x{:016x})", hi, lo)));
            }
            n += 1;
        }
        stats.add(&tag("POWER_OF_FIVE_128"), 651);
        for &(q, v) in &t.lemire_power {
            // compute_error_scaled(q, 2^63, 0).exp - INVALID_FP = power(q) + 1075 - 62
            let power = v - 1075 + 62;
            let want = floor_log2_pow10(q as i64) + 63;
            if power as i64 != want {
                return Err(fail(cfg, "lemire::power", q as i64, want.to_string(), power.to_string()));
            }
            n += 1;
        }
        stats.add(&tag("lemire::power(q)"), t.lemire_power.len() as u64);
        if t.small_int_pow5.len() != 28 || t.small_int_pow10.len() != 20 {
            return Err(fail(cfg, "SMALL_INT_POW.len", 0, "28/20".into(), format!("{}/{}", t.small_int_pow5.len(), t.small_int_pow10.len())));
        }
        for (i, &v) in t.small_int_pow5.iter().enumerate() {
            if Nat::from_u64(v) != *pow5().get(i) {
                return Err(fail(cfg, "SMALL_INT_POW5", i as i64, pow5().get(i).to_string(), v.to_string()));
            }
            n += 1;
        }
        for (i, &v) in t.small_int_pow10.iter().enumerate() {
            let want = Nat::pow_small(10, i as u32);
            if Nat::from_u64(v) != want {
                return Err(fail(cfg, "SMALL_INT_POW10", i as i64, want.to_string(), v.to_string()));
            }
            n += 1;
        }
        stats.add(&tag("SMALL_INT_POW5/10"), 48);
        for e in 0..=10u32 {
            let want = exact_pow10_bits(Fmt::F32, e);
            let got = *t.small_f32_pow10.get(e as usize).unwrap_or(&0) as u64;
            if got != want {
                return Err(fail(cfg, "SMALL_F32_POW10", e as i64, Fmt::F32.hex(want), Fmt::F32.hex(got)));
            }
            n += 1;
        }
        for e in 0..=22u32 {
            let want = exact_pow10_bits(Fmt::F64, e);
            let got = *t.small_f64_pow10.get(e as usize).unwrap_or(&0);
            if got != want {
                return Err(fail(cfg, "SMALL_F64_POW10", e as i64, Fmt::F64.hex(want), Fmt::F64.hex(got)));
            }
            n += 1;
        }
        stats.add(&tag("SMALL_F32/F64_POW10"), 34);
        if t.large_pow5_step != 135 || Nat::from_limbs(&t.large_pow5) != *pow5().get(135) || t.large_pow5.len() != 5 {
            return Err(fail(cfg, "LARGE_POW5", 0, format!("5^135 = {} (step 135)", pow5().get(135).to_string()), format!("{} (step {})", Nat::from_limbs(&t.large_pow5).to_string(), t.large_pow5_step)));
        }
        n += 2;
        stats.add(&tag("LARGE_POW5"), 2);
    } else {
        if t.bell_small.len() != 10 || t.bell_large.len() != 66 || t.bell_small_int.len() != 10 || t.bell_step != 10 || t.bell_bias != 350 {
            return Err(fail(cfg, "BASE10_POWERS.shape", 0, "10 small, 66 large, 10 ints, step 10, bias 350".into(), format!("{} small, {} large, {} ints, step {}, bias {}", t.bell_small.len(), t.bell_large.len(), t.bell_small_int.len(), t.bell_step, t.bell_bias)));
        }
        for (i, &(m, e)) in t.bell_small.iter().enumerate() {
            let want = bellerophon_entry(i as i64);
            if (m, e) != want {
                return Err(fail(cfg, "BASE10_POWERS.small", i as i64, format!("{:?}", want), format!("{:?}", (m, e))));
            }
            n += 1;
        }
        for (i, &(m, e)) in t.bell_large.iter().enumerate() {
            let k = i as i64 * 10 - 350;
            let want = bellerophon_entry(k);
            if (m, e) != want {
                return Err(fail(cfg, "BASE10_POWERS.large", k, format!("{:?}", want), format!("{:?}", (m, e))));
            }
            n += 1;
        }
        for (i, &v) in t.bell_small_int.iter().enumerate() {
            if v != 10u64.pow(i as u32) {
                return Err(fail(cfg, "BASE10_POWERS.small_int", i as i64, 10u64.pow(i as u32).to_string(), v.to_string()));
            }
            n += 1;
        }
        stats.add(&tag("BASE10_POWERS"), 86);
    }
    n += check_on_demand_powers(cfg, stats)?;
    // integer powers through the public routes that consume them
    for e in 0..=420u32 {
        let want = pow5().get(e as usize);
        match catch(|| (cfg.big_apply)(&[1], &BigOp::Pow5(e))) {
            Ok(BigOut::Ok { limbs, .. }) if Nat::from_limbs(&limbs) == *want => {}
            other => {
                return Err(fail(cfg, "bigint::pow(1, 5^e)", e as i64, want.to_string(), format!("{:?}", other)));
            }
        }
        n += 1;
    }
    stats.add("bigint::pow 5^0..5^420 (small powers, 5^27 steps, 5^135 steps)", 421);
    stats.evaluations += n;
    for i in 0..n {
        stats.nontrivial.push(crate::gen::mix(i ^ (cfg.name.len() as u64) << 32 ^ (cfg.compact as u64) << 40 ^ (cfg.alloc as u64) << 41 ^ (cfg.std as u64) << 42));
    }
    stats.sample(cfg.name, || json!({"config": cfg.name, "entries_checked": n,
        "example": if cfg.compact { json!({"BASE10_POWERS.large[0] (10^-350)": format!("{:?}", t.bell_large[0])}) } else { json!({"POWER_OF_FIVE_128[0] (5^-342)": format!("(0x{:016x}, 0x{:016x})", t.pow5_128[0].0, t.pow5_128[0].1)}) }}));
    Ok(())
}

/// The limb-width dependent constants only (used by the 32-bit-limb stage under Miri, where the full
/// enumeration would take the interpreter tens of minutes): the large power of five in the limb width
/// the crate was compiled for, powers of five through `bigint::pow` across the small-step / 27 / 135
/// boundaries, and powers of ten through `parse_mantissa`'s chunking (9-digit chunks on 32-bit limbs).
pub fn check_limb_dependent(cfg: &'static Cfg, stats: &mut Stats) -> Result<(), Failure> {
    let t = (cfg.tables)();
    if !cfg.compact && (t.large_pow5_step != 135 || Nat::from_limbs(&t.large_pow5) != *pow5().get(135)) {
        return Err(fail(cfg, "LARGE_POW5", 0, pow5().get(135).to_string(), Nat::from_limbs(&t.large_pow5).to_string()));
    }
    let mut n = 1u64;
    for e in [0u32, 1, 12, 13, 14, 26, 27, 28, 40, 134, 135, 136, 162, 270, 271, 300] {
        let want = pow5().get(e as usize);
        match catch(|| (cfg.big_apply)(&[1], &BigOp::Pow5(e))) {
            Ok(BigOut::Ok { limbs, .. }) if Nat::from_limbs(&limbs) == *want => {}
            other => return Err(fail(cfg, "bigint::pow(1, 5^e)", e as i64, want.to_string(), format!("{:?}", other))),
        }
        n += 1;
    }
    for len in 1..=40usize {
        let digits: Vec<u8> = (0..len).map(|i| b'1' + ((i * 7 + len) % 9) as u8).collect();
        let (limbs, count) = (cfg.slow_parse_mantissa)(&digits, b"", 800);
        let want = Nat::from_digits(&digits.iter().map(|c| c - b'0').collect::<Vec<_>>());
        if Nat::from_limbs(&limbs) != want || count != len {
            return Err(fail(cfg, "parse_mantissa chunking", len as i64, want.to_string(), Nat::from_limbs(&limbs).to_string()));
        }
        n += 1;
    }
    n += check_on_demand_powers(cfg, stats)?;
    stats.evaluations += n;
    Ok(())
}

pub fn run(ctx: &Ctx) -> i32 {
    let mut rep = Report::new(
        "Complete enumeration, in each of the 8 configurations, of every power constant the compiled crate exposes, \
         recomputed from its mathematical definition with the harness's own Nat: POWER_OF_FIVE_128 (651 x 128 bit, \
         closed form of etc/lemire_table.py), the binary exponent formula power(q) for all 651 q, SMALL_INT_POW5 (28), \
         SMALL_INT_POW10 (20), SMALL_F32_POW10[0..=10], SMALL_F64_POW10[0..=22], LARGE_POW5 = 5^135 and its step; \
         BASE10_POWERS (10 small + 66 large truncated normalised significands with their derived exponents, 10 \
         integers, step, bias) in compact configurations; on-demand powers pow_fast_path(e) for f32 e<=10 and f64 \
         e<=22 (tables / std pow / bundled libm), libm::powf/powd(10,e) directly; integer powers through the public \
         routes that consume them (bigint::pow for 5^0..5^420, parse_mantissa chunking for 10^1..10^19, the disguised \
         fast path for 10^1..10^15). Every entry is distinct and counts; exhaustive.",
    );
    rep.exhaustive = true;
    rep.assume("values are read from the compiled crate (minimal_lexical::table::* etc.), not parsed from source text");
    rep.assume("definitions: closed forms of etc/lemire_table.py and etc/bellerophon_table.py re-derived with Nat (floor division, truncation)");
    let mut stats = Stats::default();
    for cfg in CFGS.iter() {
        let r = catch(std::panic::AssertUnwindSafe(|| {
            let mut st = Stats::default();
            let r = check_cfg(cfg, &mut st);
            (st, r)
        }));
        match r {
            Ok((st, Ok(()))) => stats.merge(st),
            Ok((st, Err(f))) => {
                stats.merge(st);
                rep.violations.push((None, f));
            }
            Err(msg) => rep.violations.push((None, Failure::violation(format!("config {}: panic while reading constants: {msg}", cfg.name), "panic".into(), json!({"kind": "table", "config": cfg.name, "panic": msg})))),
        }
    }
    if stats.evaluations == 0 {
        stats.evaluations = 1;
    }
    rep.stats = stats;
    finish(ctx, rep)
}

pub fn replay(_v: &serde_json::Value) -> Result<bool, String> {
    // the whole finite domain is re-enumerated; any failing entry reproduces
    let mut bad = false;
    for cfg in CFGS.iter() {
        let mut st = Stats::default();
        if let Err(f) = check_cfg(cfg, &mut st) {
            println!("replay: {}", f.message);
            bad = true;
        }
    }
    Ok(bad)
}
