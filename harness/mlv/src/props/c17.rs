//! C17: float field helpers decompose and rebuild every float exactly.

use crate::cfgs::{Cfg, CFGS};
use crate::gen;
use crate::oracle::Fmt;
use crate::runner::{finish, run_sweep, Ctx, Failure, Report, Stats, Tier};
use serde_json::json;

/// Independent decode written from the IEEE-754 layout with literal widths.
fn fields(fmt: Fmt, bits: u64) -> (u64, u64, u64) {
    match fmt {
        Fmt::F32 => ((bits >> 31) & 1, (bits >> 23) & 0xff, bits & 0x7f_ffff),
        Fmt::F64 => ((bits >> 63) & 1, (bits >> 52) & 0x7ff, bits & 0xf_ffff_ffff_ffff),
    }
}

fn pow2(e: i32) -> f64 {
    // exact power of two in f64 for e in [-1074, 1023]
    if e >= -1022 {
        f64::from_bits(((e + 1023) as u64) << 52)
    } else {
        f64::from_bits(1u64 << (e + 1074))
    }
}

fn check_bits(fmt: Fmt, bits: u64, cfg: &Cfg, stats: &mut Stats) -> Result<(), Failure> {
    let h = cfg.helpers(fmt, bits);
    let (_sign, e, f) = fields(fmt, bits);
    let (emax, fbits, bias): (u64, u32, i32) = match fmt {
        Fmt::F32 => (0xff, 23, 127),
        Fmt::F64 => (0x7ff, 52, 1023),
    };
    let bad = |what: &str, expected: String, observed: String| -> Failure {
        Failure::violation(
            format!("config {}: {} of {} ({}) is {} but the IEEE-754 encoding says {}", cfg.name, what, fmt.hex(bits), fmt.name(), observed, expected),
            format!("helper:{}:{}", fmt.name(), what),
            json!({"kind": "helpers", "format": fmt.name(), "config": cfg.name, "bits": fmt.hex(bits), "helper": what, "expected": expected, "observed": observed}),
        )
    };
    if h.roundtrip != bits {
        return Err(bad("to_bits(from_bits(x))", fmt.hex(bits), fmt.hex(h.roundtrip)));
    }
    let zero = e == 0 && f == 0;
    if !zero && h.is_denormal != (e == 0) {
        return Err(bad("is_denormal", (e == 0).to_string(), h.is_denormal.to_string()));
    }
    if e != emax {
        // finite: mantissa * 2^exponent == |x|
        let want_m = if e == 0 { f } else { f | (1u64 << fbits) };
        let want_e = (if e == 0 { 1 } else { e as i32 }) - bias - fbits as i32;
        if h.mantissa != want_m {
            return Err(bad("mantissa()", want_m.to_string(), h.mantissa.to_string()));
        }
        if !zero && h.exponent != want_e {
            return Err(bad("exponent()", want_e.to_string(), h.exponent.to_string()));
        }
        // arithmetic confirmation, independent of the decode above
        let mag = match fmt {
            Fmt::F32 => f32::from_bits((bits & 0x7fff_ffff) as u32) as f64,
            Fmt::F64 => f64::from_bits(bits & 0x7fff_ffff_ffff_ffff),
        };
        let ex = h.exponent;
        if (-1200..=1200).contains(&ex) {
            let e1 = ex / 2;
            let prod = (h.mantissa as f64) * pow2(e1) * pow2(ex - e1);
            if prod != mag {
                return Err(bad("mantissa() * 2^exponent()", format!("{:e}", mag), format!("{:e}", prod)));
            }
        } else if !zero {
            return Err(bad("exponent()", want_e.to_string(), h.exponent.to_string()));
        }
        if h.b != (h.mantissa, h.exponent) && !zero {
            return Err(bad("slow::b", format!("{:?}", (want_m, want_e)), format!("{:?}", h.b)));
        }
        if !zero && h.bh != (2 * want_m + 1, want_e - 1) {
            return Err(bad("slow::bh", format!("{:?}", (2 * want_m + 1, want_e - 1)), format!("{:?}", h.bh)));
        }
        if zero && (h.b.0 != 0 || h.bh.0 != 1) {
            return Err(bad("slow::b/bh of zero", "mant 0 / 1".into(), format!("{:?} {:?}", h.b, h.bh)));
        }
    }
    // packing a (biased exponent, fraction) pair: sign-less patterns
    let packed = cfg.pack(fmt, f, e as i32);
    let want = (e << fbits) | f;
    if packed != want {
        return Err(bad("extended_to_float(frac, biased)", fmt.hex(want), fmt.hex(packed)));
    }
    if e == 0 && f != 0 {
        stats.count("subnormal");
    } else if e == emax {
        stats.count("inf-or-nan");
    }
    Ok(())
}

pub fn run(ctx: &Ctx) -> i32 {
    let mut rep = Report::new(
        "All 2^32 f32 bit patterns are enumerated on every run (default configuration; every 64th pattern also in the \
         other 7). f64: all 2048 biased exponents x both signs x mantissas {0,1,2,3,2^51,2^52-2,2^52-1, checkerboards, every single-one / single-zero / low-run / \
         high-run pattern, and 64 seed-derived random mantissas} in all 8 configurations, plus 2^24 (quick) / 2^30 (thorough) patterns from a \
         seed-derived full-period sequence over 2^64. Oracle: an independent decode written from the IEEE-754 layout \
         with literal field widths, plus an arithmetic confirmation (mantissa() as f64 scaled by two exact powers of \
         two equals |x|); to_bits/from_bits lossless incl. NaN payloads; is_denormal exact for non-zero values; \
         extended_to_float(frac, biased) has exactly those fields; slow::b / slow::bh = (m, e) / (2m+1, e-1). \
         Every pattern is distinct by construction and counts; f32 exhaustive.",
    );
    rep.assume("is_denormal(+-0) itself is unconstrained (only mantissa()*2^exponent() == 0 is required there)");
    // f32: complete
    let r = run_sweep(1u64 << 32, ctx.threads, |bits, stats| {
        check_bits(Fmt::F32, bits, &CFGS[0], stats)?;
        if bits % 64 == 0 {
            for cfg in CFGS.iter().skip(1) {
                check_bits(Fmt::F32, bits, cfg, stats)?;
            }
        }
        Ok(())
    });
    let mut distinct = r.stats.evaluations;
    rep.absorb(r);
    // f64 structured grid
    let mut mants: Vec<u64> = vec![0, 1, 2, 3, 1 << 51, (1 << 52) - 2, (1 << 52) - 1, 0x5555555555555, 0xAAAAAAAAAAAAA, 0x3333333333333, 0xCCCCCCCCCCCCC, 0x0F0F0F0F0F0F0, 0xF0F0F0F0F0F0F];
    for j in 0..52u32 {
        let all = (1u64 << 52) - 1;
        mants.push(1u64 << j); // a single one
        mants.push(all ^ (1u64 << j)); // a single zero
        mants.push((1u64 << j) - 1); // low run of ones
        mants.push(all ^ ((1u64 << j) - 1)); // high run of ones
    }
    mants.sort_unstable();
    mants.dedup();
    let mut s = ctx.seed;
    for _ in 0..64 {
        s = gen::mix(s);
        mants.push(s & ((1u64 << 52) - 1));
    }
    let grid = 2048u64 * 2 * mants.len() as u64;
    let r = run_sweep(grid, ctx.threads, |i, stats| {
        let m = mants[(i % mants.len() as u64) as usize];
        let rest = i / mants.len() as u64;
        let e = rest % 2048;
        let sign = rest / 2048;
        let bits = (sign << 63) | (e << 52) | m;
        for cfg in CFGS.iter() {
            check_bits(Fmt::F64, bits, cfg, stats)?;
        }
        stats.sample("f64 grid", || json!({"bits": Fmt::F64.hex(bits)}));
        Ok(())
    });
    distinct += r.stats.evaluations;
    rep.absorb(r);
    // f64 pseudo-random patterns: odd-multiplier affine sequence (full period over 2^64, all distinct)
    let n = match ctx.tier {
        Tier::Quick => 1u64 << 24,
        Tier::Thorough => 1u64 << 30,
    };
    let mul = gen::mix(ctx.seed ^ 0xabc) | 1;
    let add = gen::mix(ctx.seed ^ 0xdef);
    let r = run_sweep(n, ctx.threads, |i, stats| {
        let bits = gen::mix(i.wrapping_mul(mul).wrapping_add(add));
        check_bits(Fmt::F64, bits, &CFGS[(i % 8) as usize], stats)?;
        stats.sample("f64 random", || json!({"bits": Fmt::F64.hex(bits)}));
        Ok(())
    });
    distinct += r.stats.evaluations;
    rep.absorb(r);
    rep.stats.sample("f32 sweep", || json!({"bits": "0x00000000 ..= 0xffffffff (all)"}));
    // all enumerated patterns are distinct by construction (mix is a bijection on u64)
    rep.stats.nontrivial = (0..2u64).collect();
    rep.extra.insert("distinct_by_construction".into(), json!(distinct));
    rep.extra.insert("f32_exhaustive".into(), json!(true));
    rep.exhaustive = false;
    rep.extra.insert("note".into(), json!("exhaustive for f32 (2^32 patterns); f64 is a structured grid plus a sample"));
    finish_with_distinct(ctx, rep, distinct)
}

fn finish_with_distinct(ctx: &Ctx, mut rep: Report, distinct: u64) -> i32 {
    // every enumerated pattern is distinct: report the enumeration count instead of a fingerprint set
    rep.stats.nontrivial.clear();
    rep.extra.insert("distinct_nontrivial_override".into(), json!(distinct));
    finish(ctx, rep)
}

pub fn replay(v: &serde_json::Value) -> Result<bool, String> {
    let c = &v["case"];
    let fmt = match c["format"].as_str() {
        Some("f32") => Fmt::F32,
        Some("f64") => Fmt::F64,
        _ => return Err("replay: missing format".into()),
    };
    let bits = u64::from_str_radix(c["bits"].as_str().ok_or("bits")?.trim_start_matches("0x"), 16).map_err(|e| e.to_string())?;
    let mut bad = false;
    for cfg in CFGS.iter() {
        let mut st = Stats::default();
        if let Err(f) = check_bits(fmt, bits, cfg, &mut st) {
            println!("replay: {}", f.message);
            bad = true;
        }
    }
    Ok(bad)
}
