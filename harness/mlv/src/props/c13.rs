//! C13: stack and heap vectors behave like a length-bounded sequence (model-based).

use crate::cfgs::{Cfg, VecObs, VecOp, CFGS};
use crate::gen::{self, pick_w, Recipe};
use crate::nat::Nat;
use crate::runner::{catch, finish, last_panic_location, require_counter, run_recipes, Ctx, Failure, Report, Stats};
use serde_json::{json, Value};
use std::cmp::Ordering;

use super::c12::LIMB32;

/// Capacity of the fixed-size vector in native limbs: 4000 bits / limb width.
pub const CAP: usize = if LIMB32 { 125 } else { 62 };
/// Width and mask of one native limb.  The model is a sequence of native limbs (one model element = one limb of
/// the crate), so on a 32-bit-limb target (Miri, --target i686) the elements are 32-bit values.
const LBITS: u32 = if LIMB32 { 32 } else { 64 };
const LMASK: u64 = if LIMB32 { 0xffff_ffff } else { u64::MAX };

/// The number represented by a sequence of native limbs.
fn nat_of(v: &[u64]) -> Nat {
    if LIMB32 {
        let wide: Vec<u64> = v.chunks(2).map(|c| c[0] | c.get(1).copied().unwrap_or(0) << 32).collect();
        Nat::from_limbs(&wide)
    } else {
        Nat::from_limbs(v)
    }
}

fn limb(s: u64) -> u64 {
    limb64(s) & LMASK
}

fn limb64(s: u64) -> u64 {
    match s % 11 {
        0 => 0,
        1 => u64::MAX,
        2 => 1,
        3 => 1 << 63,
        // byte-structured values: byte-palindromes, one repeated byte, one odd byte out
        4 => {
            let v = gen::mix(s) & 0xffff_ffff;
            (v << 32 | v).swap_bytes() | (v << 32 | v)
        }
        5 => {
            let v = gen::mix(s);
            (v & 0xff) * 0x0101_0101_0101_0101
        }
        6 => {
            let v = gen::mix(s);
            ((v & 0xff) * 0x0101_0101_0101_0101) ^ (((v >> 8) & 0xff) << (8 * ((v >> 16) % 8)))
        }
        _ => gen::mix(s),
    }
}

fn slice(s: u64, len: usize) -> Vec<u64> {
    (0..len).map(|i| limb(gen::mix(s ^ (i as u64 + 7) * 0x9e37))).collect()
}

/// G-L: a history of up to 200 operations sized to hover around capacity.
pub fn history(r: &Recipe) -> Vec<VecOp> {
    let n = (r.k[0] % 201) as usize;
    let mut ops = Vec::with_capacity(n + 2);
    // every history starts from a vector built by from_u64 out of a value with distinct halves (so that even the
    // handful of histories run by the interpreted 32-bit / big-endian stages exercise that construction route)
    ops.push(VecOp::FromU64(gen::mix(r.a ^ 0xf0) | 0x0000_0001_0000_0002));
    ops.push(VecOp::CloneToB);
    // running length estimate, to aim arguments at the capacity edge
    let mut est: usize = 1;
    for i in 0..n {
        let s = gen::mix(r.a ^ (i as u64 + 1).wrapping_mul(0xd6e8_feb8_6659_fd93) ^ r.b.rotate_left(i as u32 % 64));
        // digits of the recipe steer the op kind where available (so that shrinking simplifies histories)
        let sel = match r.digits.get(i % r.digits.len().max(1)) {
            Some(&d) if i < r.digits.len() => (d as u16) * 6553 + (s % 6553) as u16,
            _ => (s >> 48) as u16,
        };
        let room = CAP.saturating_sub(est);
        let op = match pick_w(sel, &[2, 6, 18, 10, 14, 12, 6, 8, 8, 5, 4, 5, 2]) {
            0 => {
                est = 0;
                VecOp::New
            }
            1 => {
                let len = match s % 5 {
                    0 => (s >> 8) as usize % 5,
                    1 => CAP - 4 + (s >> 8) as usize % 7, // straddles capacity
                    2 => CAP,
                    _ => (s >> 8) as usize % (CAP + 3),
                };
                if len <= CAP {
                    est = len;
                }
                VecOp::TryFrom(slice(s, len))
            }
            2 => {
                if est < CAP {
                    est += 1;
                }
                VecOp::Push(limb(s >> 3))
            }
            3 => {
                est = est.saturating_sub(1);
                VecOp::Pop
            }
            4 => {
                let len = match s % 4 {
                    0 => (s >> 8) as usize % 4,
                    1 => room,
                    2 => room + 1,
                    _ => (s >> 8) as usize % (room + 3),
                };
                if len <= room {
                    est += len;
                }
                VecOp::Extend(slice(s, len))
            }
            5 => {
                let len = match s % 23 {
                    0..=3 => CAP,
                    4..=7 => CAP + 1 + (s >> 8) as usize % 3,
                    8..=11 => est.saturating_sub((s >> 8) as usize % 5),
                    12..=15 => (s >> 8) as usize % (CAP + 1),
                    16..=19 => CAP - (s >> 8) as usize % 3,
                    // absurd lengths around the width of the length field (u16) and of usize
                    20 => 65536 + (s >> 8) as usize % 70,
                    21 => ((1u64 << 32) as usize).wrapping_add((s >> 8) as usize % 70),
                    _ => usize::MAX - (s >> 8) as usize % 70,
                };
                if len <= CAP {
                    est = len;
                }
                VecOp::Resize(len, limb(s >> 5))
            }
            6 => VecOp::Normalize,
            7 => VecOp::AddSmall(limb(s >> 3)),
            8 => VecOp::MulSmall(limb(s >> 3)),
            9 => match s % 3 {
                0 => VecOp::CloneToB,
                1 => VecOp::CloneFromA,
                _ => {
                    est = CAP / 2; // unknown: b's length
                    VecOp::CloneFromB
                }
            },
            10 => VecOp::Swap,
            11 => VecOp::Write((s >> 8) as usize, limb(s >> 3)),
            _ => {
                est = 1;
                VecOp::FromU64(limb64(s >> 3))
            }
        };
        ops.push(op);
    }
    ops
}

#[derive(Clone)]
struct Model {
    a: Vec<u64>,
    b: Vec<u64>,
}

fn numeric_cmp(a: &[u64], b: &[u64]) -> Ordering {
    nat_of(a).cmp(&nat_of(b))
}

fn normalized(v: &[u64]) -> bool {
    v.last().map_or(true, |&t| t != 0)
}

pub fn check_history(ops: &[VecOp], cfg: &Cfg, poison: u64, stats: &mut Stats) -> Result<(bool, bool, bool, bool), Failure> {
    let bounded = !cfg.alloc;
    let fail = |step: usize, what: String, obs: Option<&VecObs>, model: &Model| -> Failure {
        Failure::violation(
            format!("config {} ({}): after step {} ({}): {}", cfg.name, if bounded { "StackVec" } else { "HeapVec" }, step, ops.get(step.wrapping_sub(1)).map(|o| format!("{:?}", o)).unwrap_or_else(|| "start".into()).chars().take(80).collect::<String>(), what),
            format!("vec:{}:{}", if bounded { "stack" } else { "heap" }, what.split(':').next().unwrap_or("")),
            json!({"kind": "vec-history", "config": cfg.name, "step": step, "what": what,
                   "ops": ops.iter().map(|o| format!("{:?}", o)).collect::<Vec<_>>(),
                   "model_a_len": model.a.len(), "observed_len": obs.map(|o| o.len)}),
        )
    };
    // absurd resize lengths would make the unbounded heap vector allocate gigabytes: they are part of
    // the bounded vector's histories only
    let filtered: Vec<VecOp>;
    let ops: &[VecOp] = if bounded {
        ops
    } else {
        filtered = ops.iter().filter(|o| !matches!(o, VecOp::Resize(n, _) if *n > 4096)).cloned().collect();
        &filtered
    };
    let obs = match catch(|| (cfg.vec_history)(ops, poison)) {
        Ok(o) => o,
        Err(msg) => {
            return Err(Failure::violation(
                format!("config {}: vector history panicked: {msg} at {}", cfg.name, last_panic_location()),
                format!("vec:{}:panic", if bounded { "stack" } else { "heap" }),
                json!({"kind": "vec-history", "config": cfg.name, "panic": msg, "ops": ops.iter().map(|o| format!("{:?}", o)).collect::<Vec<_>>()}),
            ))
        }
    };
    let mut m = Model { a: vec![], b: vec![] };
    let (mut reached_cap, mut shrank_after, mut regrew, mut rejected) = (false, false, false, false);
    if obs.len() != ops.len() + 1 {
        return Err(fail(0, "observation count".into(), None, &m));
    }
    for step in 0..=ops.len() {
        let o = &obs[step];
        let mut resync = false;
        if step > 0 {
            let op = &ops[step - 1];
            let before = m.a.len();
            let mut expect_ret: i64 = 1;
            match op {
                VecOp::New => m.a.clear(),
                VecOp::TryFrom(x) => {
                    if bounded && x.len() > CAP {
                        expect_ret = 0;
                    } else {
                        m.a = x.clone();
                    }
                }
                VecOp::Push(v) => {
                    if bounded && m.a.len() >= CAP {
                        expect_ret = 0;
                    } else {
                        m.a.push(*v);
                    }
                }
                VecOp::Pop => {
                    let p = m.a.pop();
                    expect_ret = p.is_some() as i64;
                    if o.popped != p {
                        return Err(fail(step, format!("pop: returned {:?}, model {:?}", o.popped, p), Some(o), &m));
                    }
                }
                VecOp::Extend(x) => {
                    if bounded && m.a.len() + x.len() > CAP {
                        expect_ret = 0;
                    } else {
                        m.a.extend_from_slice(x);
                    }
                }
                VecOp::Resize(n, v) => {
                    if bounded && *n > CAP {
                        expect_ret = 0;
                    } else {
                        m.a.resize(*n, *v);
                    }
                }
                VecOp::Normalize => {
                    while let Some(&0) = m.a.last() {
                        m.a.pop();
                    }
                }
                VecOp::AddSmall(y) => {
                    let mut carry = *y;
                    let mut i = 0;
                    while carry != 0 && i < m.a.len() {
                        let s = m.a[i] as u128 + carry as u128;
                        m.a[i] = s as u64 & LMASK;
                        carry = (s >> LBITS) as u64;
                        i += 1;
                    }
                    if carry != 0 {
                        if bounded && m.a.len() >= CAP {
                            expect_ret = 0;
                            resync = true;
                        } else {
                            m.a.push(carry);
                        }
                    }
                }
                VecOp::MulSmall(y) => {
                    let mut carry = 0u128;
                    for l in m.a.iter_mut() {
                        let p = *l as u128 * *y as u128 + carry;
                        *l = p as u64 & LMASK;
                        carry = p >> LBITS;
                    }
                    if carry != 0 {
                        if bounded && m.a.len() >= CAP {
                            expect_ret = 0;
                            resync = true;
                        } else {
                            m.a.push(carry as u64);
                        }
                    }
                }
                VecOp::CloneToB | VecOp::CloneFromA => m.b = m.a.clone(),
                VecOp::CloneFromB => m.a = m.b.clone(),
                VecOp::Swap => std::mem::swap(&mut m.a, &mut m.b),
                VecOp::Write(i, v) => {
                    let n = m.a.len();
                    if n > 0 {
                        m.a[*i % n] = *v;
                    }
                }
                VecOp::FromU64(v) => {
                    m.a = if LIMB32 { vec![*v & LMASK, *v >> 32] } else { vec![*v] };
                    while let Some(&0) = m.a.last() {
                        m.a.pop();
                    }
                }
            }
            if o.ret != expect_ret {
                return Err(fail(step, format!("return: operation returned {} but the reference sequence says {}", if o.ret == 1 { "Some" } else { "None" }, if expect_ret == 1 { "Some" } else { "None" }), Some(o), &m));
            }
            if expect_ret == 0 {
                rejected = true;
                stats.count("rejected-growth");
            }
            if resync {
                // after a failed small-arithmetic op only the failure report is promised
                if o.len > CAP {
                    return Err(fail(step, "length: exceeds capacity after failed arithmetic".into(), Some(o), &m));
                }
                m.a = o.a.clone();
            }
            if m.a.len() == CAP {
                if reached_cap && shrank_after {
                    regrew = true;
                }
                reached_cap = true;
            }
            if reached_cap && m.a.len() < before {
                shrank_after = true;
            }
        }
        if o.a != m.a {
            let idx = o.a.iter().zip(m.a.iter()).position(|(x, y)| x != y);
            return Err(fail(step, format!("contents: differ from the reference sequence (len {} vs {}, first differing index {:?})", o.a.len(), m.a.len(), idx), Some(o), &m));
        }
        if o.b != m.b {
            return Err(fail(step, "contents: second vector differs from the reference sequence".into(), Some(o), &m));
        }
        if o.len != m.a.len() || o.is_empty != m.a.is_empty() {
            return Err(fail(step, format!("length: len()={} is_empty()={} but reference has {}", o.len, o.is_empty, m.a.len()), Some(o), &m));
        }
        if o.len > o.capacity || (bounded && o.capacity != CAP) {
            return Err(fail(step, format!("length: len {} capacity {}", o.len, o.capacity), Some(o), &m));
        }
        if o.is_normalized != normalized(&m.a) {
            return Err(fail(step, format!("is_normalized: {} vs {}", o.is_normalized, normalized(&m.a)), Some(o), &m));
        }
        if normalized(&m.a) && o.hi64 != nat_of(&m.a).hi64() {
            return Err(fail(step, format!("hi64: {:?} vs {:?}", o.hi64, nat_of(&m.a).hi64()), Some(o), &m));
        }
        if o.eq_ab != (m.a == m.b) {
            return Err(fail(step, format!("equality: a == b is {} but reference says {}", o.eq_ab, m.a == m.b), Some(o), &m));
        }
        if o.partial_cmp_ab != Some(o.cmp_ab) {
            return Err(fail(step, "ordering: partial_cmp != Some(cmp)".into(), Some(o), &m));
        }
        // the operators must say what cmp / == say
        let want_ops = [!o.eq_ab, o.cmp_ab == Ordering::Less, o.cmp_ab != Ordering::Greater, o.cmp_ab == Ordering::Greater, o.cmp_ab != Ordering::Less];
        if o.ops_ab != want_ops {
            return Err(fail(step, format!("ordering: the operators [!=, <, <=, >, >=] give {:?} but cmp is {:?} and == is {}", o.ops_ab, o.cmp_ab, o.eq_ab), Some(o), &m));
        }
        if (normalized(&m.a) && normalized(&m.b)) || m.a.len() == m.b.len() {
            let want = numeric_cmp(&m.a, &m.b);
            if o.cmp_ab != want {
                return Err(fail(step, format!("ordering: cmp is {:?} but numeric comparison says {:?}", o.cmp_ab, want), Some(o), &m));
            }
            stats.count("numeric-order-checks");
        } else if (o.cmp_ab == Ordering::Equal) != o.eq_ab {
            return Err(fail(step, "ordering: eq and cmp == Equal disagree".into(), Some(o), &m));
        }
    }
    Ok((reached_cap, shrank_after, regrew, rejected))
}

pub fn check_recipe(r: &Recipe, stats: &mut Stats) -> Result<(), Failure> {
    check_recipe_cfgs(r, &[0, 2, 5, 6], stats)
}

pub fn check_recipe_cfgs(r: &Recipe, cfgs: &[usize], stats: &mut Stats) -> Result<(), Failure> {
    let ops = history(r);
    let poison = gen::mix(r.b ^ 0x5eed) | 0x0101_0101_0101_0101;
    let mut flags = (false, false, false, false);
    for (n, &idx) in cfgs.iter().enumerate() {
        let f = check_history(&ops, &CFGS[idx], poison, stats)?;
        if n == 0 {
            flags = f;
        }
    }
    stats.add("operations", ops.len() as u64);
    let (reached, shrank, regrew, rejected) = flags;
    if reached {
        stats.count("histories-reaching-capacity");
    }
    if reached && shrank && regrew {
        stats.count("histories-fill-shrink-regrow");
    }
    if rejected {
        stats.count("histories-with-rejected-growth");
    }
    if (reached && shrank && regrew) || rejected {
        stats.nontrivial.push(gen::mix(r.a ^ gen::mix(r.b ^ r.k[0] as u64) ^ r.digits.iter().fold(0u64, |h, &d| h.wrapping_mul(11).wrapping_add(d as u64))));
        stats.sample("history", || json!({"operations": ops.len(), "first_ops": ops.iter().take(12).map(|o| format!("{:?}", o).chars().take(60).collect::<String>()).collect::<Vec<_>>(),
            "reached_capacity": reached, "shrank_then_regrew": regrew, "rejected_growth": rejected}));
    }
    Ok(())
}

pub fn run(ctx: &Ctx) -> i32 {
    let mut rep = Report::new(
        "Model-based: histories of 0..200 operations over the safe API (new, try_from, try_push, pop, try_extend, \
         try_resize, normalize, add_small, mul_small, clone, swap of two live vectors, writes through DerefMut, \
         from_u64) with arguments aimed at the capacity edge (fill to 62, slices of room / room+1, resize to 62..65, \
         try_from of 58..64 limbs; limbs from {0, MAX, 1, 2^63, random}) are interpreted against StackVec (default and \
         no_std+compact shims) and HeapVec (alloc and no_std+alloc shims) and against a Vec<u64> reference with \
         capacity 62 (stack) / unbounded (heap). After every step: contents equal, len/is_empty/capacity/\
         is_normalized/hi64 agree, len <= capacity, rejected growth returns None and leaves contents bit-identical, \
         == and cmp agree with numeric comparison whenever both sides are normalised or of equal length (eq <=> \
         cmp==Equal otherwise). The worker's stack is overwritten with a seed-derived non-zero pattern before each \
         history so an exposed never-written slot shows as a mismatch. After a failed add_small/mul_small the model is \
         re-synchronised (only the failure report is promised). Non-trivial: the history reached length 62, shrank \
         and regrew to 62, or contained a rejected growth; distinct by history fingerprint.",
    );
    rep.assume("contents after a failed add_small/mul_small are unspecified");
    let cases = ctx.cases(200_000, 20_000_000);
    let r = run_recipes(ctx.seed, cases, ctx.threads, 13, |r, stats| check_recipe(r, stats));
    rep.absorb(r);
    let n = rep.stats.evaluations.max(1);
    for k in ["histories-fill-shrink-regrow", "histories-with-rejected-growth"] {
        let v = rep.stats.counters.get(k).copied().unwrap_or(0);
        rep.extra.insert(format!("fraction:{k}"), json!(v as f64 / n as f64));
        require_counter(&mut rep, k, n / 10);
    }
    finish(ctx, rep)
}

pub fn replay(v: &Value) -> Result<bool, String> {
    let r = Recipe::from_json(&v["recipe"]).ok_or("replay: C13 replays need the recipe")?;
    let mut st = Stats::default();
    match check_recipe(&r, &mut st) {
        Ok(()) => Ok(false),
        Err(f) => {
            println!("replay: {}", f.message);
            Ok(true)
        }
    }
}
