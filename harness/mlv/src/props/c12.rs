//! C12: big-integer arithmetic is exact and reports overflow instead of wrapping.

use crate::cfgs::{BigOp, BigOut, Cfg, CFGS};
use crate::gen::{self, pick_w, Recipe};
use crate::nat::{pow5, Nat};
use crate::runner::{catch, finish, last_panic_location, require_counter, run_recipes, Ctx, Failure, Report, Stats};
use serde_json::{json, Value};
use std::cmp::Ordering;

pub const CAP: usize = 62;

fn limb_pattern(k: u64, v: u64) -> u64 {
    match k % 13 {
        0 => 0,
        1 => 1,
        2 => u64::MAX,
        3 => u64::MAX - 1,
        4 => 1 << 63,
        5 => (1 << 32) + 1,
        6 => (1 << 32) - 1,
        // exact powers of two and 2^j - 1 for EVERY j (the half-limb boundary 2^32 itself first): shortcuts
        // keyed on a limb's magnitude are wrong exactly at such a value, for one or for both operands
        7 => 1 << 32,
        8 => 1u64 << (v % 64),
        9 => (1u64 << (v % 64)).wrapping_sub(1),
        _ => v,
    }
}

/// G-K operand: limb vector with a length from a capacity-hugging mixture.
pub fn operand(seed: u64, len_sel: u16, normalized: bool, max_len: usize) -> Vec<u64> {
    let k = gen::mix(seed);
    let len = match pick_w(len_sel, &[4, 12, 10, 16, 12, 10, 10, 8, 8, 10]) {
        0 => 0,
        1 => 1,
        2 => 2,
        3 => 3 + (k % 6) as usize,
        4 => 9 + (k % 20) as usize,
        5 => 29 + (k % 4) as usize,
        6 => 33 + (k % 24) as usize,
        7 => 57 + (k % 3) as usize,
        8 => 60,
        _ => 61 + (k % 2) as usize,
    }
    .min(max_len);
    let style = (k >> 20) % 4; // 0: random limbs, 1: patterned, 2: all MAX, 3: sparse
    let mut v: Vec<u64> = (0..len)
        .map(|i| {
            let r = gen::mix(seed ^ (i as u64 + 1).wrapping_mul(0x2545_f491_4f6c_dd1d));
            match style {
                0 => r,
                1 => limb_pattern(r >> 8, r),
                2 => u64::MAX,
                _ => {
                    if r % 5 == 0 {
                        r
                    } else {
                        0
                    }
                }
            }
        })
        .collect();
    if normalized {
        if let Some(t) = v.last_mut() {
            if *t == 0 {
                *t = 1 + (k >> 40) % 7;
            }
        }
    }
    v
}

/// The property quantifies over non-zero operand values.
pub fn nonzero(mut v: Vec<u64>, k: u64) -> Vec<u64> {
    if v.iter().all(|&l| l == 0) {
        if v.is_empty() {
            v.push(1 + k % 9);
        } else {
            v[0] = 1 + k % 9;
        }
    }
    v
}

/// The crate uses 32-bit limbs on targets without a native 64x64->128 multiplication (every 32-bit target).
pub const LIMB32: bool = cfg!(not(all(target_pointer_width = "64", not(target_arch = "sparc"))));

/// A non-zero single-limb operand (one *native* limb: below 2^32 on a 32-bit-limb target).
fn scalar(k: u64) -> u64 {
    let v = limb_pattern(k, gen::mix(k));
    (if LIMB32 { v & 0xffff_ffff } else { v }).max(1)
}

fn needs_limbs(n: &Nat) -> usize {
    n.limbs()
}

fn desc(x: &[u64]) -> Value {
    if x.len() <= 6 {
        json!(x.iter().map(|l| format!("{:#x}", l)).collect::<Vec<_>>())
    } else {
        json!({"limbs": x.len(), "low": format!("{:#x}", x[0]), "top": format!("{:#x}", x[x.len() - 1])})
    }
}

fn full(x: &[u64]) -> Value {
    json!(x.iter().map(|l| format!("{:#x}", l)).collect::<Vec<_>>())
}

/// One generated operation with its reference result and representation bound.
pub struct OpCase {
    pub x: Vec<u64>,
    pub op: BigOp,
    pub name: &'static str,
    /// exact result
    pub want: Nat,
    /// x normalized (then "result fits => must succeed" applies)
    pub strict: bool,
    /// upper bound on the representation length the operation may need
    pub repr_bound: usize,
    /// the function promises a normalised result
    pub normalized_result: bool,
}

pub fn op_case(r: &Recipe) -> OpCase {
    let strict = r.sel[6] >= 0x3000; // ~81% normalized operands
    let which = pick_w(r.sel[0], &[8, 10, 10, 12, 12, 10, 8, 8, 6, 8, 3, 3, 6, 6]);
    let max_x = CAP;
    let k = gen::mix(r.b);
    let x = nonzero(operand(r.a, r.sel[1], strict, max_x), k);
    let nx = Nat::from_limbs(&x);
    match which {
        0 => {
            let y = scalar(k);
            OpCase { want: nx.add_small(y), repr_bound: x.len() + 1, x, op: BigOp::SmallAdd(y), name: "small_add", strict, normalized_result: false }
        }
        1 => {
            let y = scalar(k);
            OpCase { want: nx.mul_small(y), repr_bound: x.len() + 1, x, op: BigOp::SmallMul(y), name: "small_mul", strict, normalized_result: false }
        }
        2 => {
            let y = nonzero(operand(r.b, r.sel[2], true, CAP), k >> 8);
            let start = match r.k[0] % 4 {
                0 => 0,
                1 => (r.k[1] as usize) % 4,
                2 => (r.k[1] as usize) % (CAP + 1),
                _ => x.len().saturating_sub((r.k[1] % 3) as usize),
            };
            let want = nx.add(&Nat::from_limbs(&y).shl(64 * start as u64));
            let repr = x.len().max(if y.is_empty() { 0 } else { y.len() + start }) + 1;
            OpCase { want, repr_bound: repr, x, op: BigOp::LargeAddFrom(y, start), name: "large_add_from", strict, normalized_result: false }
        }
        3 | 4 => {
            // multi-limb multiplication: non-zero (non-empty) factors, sized so that the product hovers around capacity
            let mut x = x;
            if x.is_empty() || Nat::from_limbs(&x).is_zero() {
                x = vec![1 + k % 9];
            }
            let room = (CAP + 2).saturating_sub(x.len()).max(1);
            let ylen_sel = r.sel[2];
            let mut y = operand(r.b, ylen_sel, true, room.min(CAP));
            if y.is_empty() {
                y = vec![2 + k % 9];
            }
            let want = Nat::from_limbs(&x).mul(&Nat::from_limbs(&y));
            let repr = x.len() + y.len();
            let strict = strict && crate::nat::Nat::from_limbs(&x).limbs() == x.len();
            if which == 3 {
                OpCase { want, repr_bound: repr, x, op: BigOp::LongMul(y), name: "long_mul", strict, normalized_result: true }
            } else {
                OpCase { want, repr_bound: repr, x, op: BigOp::LargeMul(y), name: "large_mul", strict, normalized_result: false }
            }
        }
        5 => {
            // pow (x *= 5^e) on a non-zero value; e crossing 27 and 135
            let mut x = if r.k[0] % 3 == 0 { vec![1] } else { x };
            if Nat::from_limbs(&x).is_zero() {
                x = vec![3];
            }
            let xl = Nat::from_limbs(&x).limbs();
            // 5^e has ~2.32 e bits; keep the result near capacity in a third of the cases
            let max_e = (((CAP + 2 - xl.min(CAP)) * 64) as f64 / 2.3219) as u32 + 30;
            let e = match r.k[1] % 6 {
                0 => r.k[2] % 28,
                1 => 26 + r.k[2] % 4,
                2 => 133 + r.k[2] % 5,
                3 => max_e.saturating_sub(r.k[2] % 60),
                4 => r.k[2] % (max_e + 1),
                _ => 269 + r.k[2] % 4,
            };
            let want = Nat::from_limbs(&x).mul(&Nat::pow_small(5, e));
            let strict = Nat::from_limbs(&x).limbs() == x.len();
            OpCase { want, repr_bound: usize::MAX, x, op: BigOp::Pow5(e), name: "pow(5^e)", strict, normalized_result: false }
        }
        6 => {
            let mut x = if r.k[0] % 3 == 0 { vec![1 + k % 1000] } else { x };
            if Nat::from_limbs(&x).is_zero() {
                x = vec![7];
            }
            let base = [2u32, 5, 10][(r.k[3] % 3) as usize];
            let xl = Nat::from_limbs(&x).limbs();
            let bits_room = ((CAP + 1 - xl.min(CAP)) * 64) as f64;
            let per = match base {
                2 => 1.0,
                5 => 2.3219,
                _ => 3.3219,
            };
            let max_e = (bits_room / per) as u32 + 20;
            let e = match r.k[1] % 4 {
                0 => r.k[2] % 40,
                1 => max_e.saturating_sub(r.k[2] % 50),
                2 => r.k[2] % (max_e + 1),
                _ => 134 + r.k[2] % 4,
            };
            let mut want = Nat::from_limbs(&x);
            if base % 5 == 0 {
                want = want.mul(&Nat::pow_small(5, e));
            }
            if base % 2 == 0 {
                want = want.shl(e as u64);
            }
            let strict = Nat::from_limbs(&x).limbs() == x.len();
            OpCase { want, repr_bound: usize::MAX, x, op: BigOp::BigintPow(base, e), name: "Bigint::pow", strict, normalized_result: false }
        }
        7 => {
            let n = 1 + (r.k[0] % if LIMB32 { 31 } else { 63 }) as usize; // shl_bits requires n < LIMB_BITS
            OpCase { want: nx.shl(n as u64), repr_bound: x.len() + 1, x, op: BigOp::ShlBits(n), name: "shl_bits", strict, normalized_result: false }
        }
        8 => {
            let n = match r.k[0] % 3 {
                0 => 1 + (r.k[1] % 3) as usize,
                1 => 1 + (r.k[1] as usize) % CAP,
                _ => (CAP + 1).saturating_sub(x.len()).saturating_sub((r.k[1] % 3) as usize).max(1),
            };
            let repr = if x.is_empty() { 0 } else { x.len() + n };
            OpCase { want: nx.shl(64 * n as u64), repr_bound: repr, x, op: BigOp::ShlLimbs(n), name: "shl_limbs", strict, normalized_result: false }
        }
        9 => {
            let room_bits = (CAP + 1).saturating_sub(x.len()) * 64;
            let n = match r.k[0] % 4 {
                0 => 1 + (r.k[1] % 130) as usize,
                1 => 1 + (r.k[1] as usize) % 4100,
                2 => room_bits.saturating_sub((r.k[1] % 130) as usize),
                _ => 64 * (1 + (r.k[1] % 62) as usize),
            }
            .max(1);
            let repr = if x.is_empty() { 0 } else { x.len() + n / 64 + 1 };
            OpCase { want: nx.shl(n as u64), repr_bound: repr, x, op: BigOp::Shl(n), name: "shl", strict, normalized_result: false }
        }
        10 => {
            let x = nonzero(operand(r.a, r.sel[1], false, CAP), k);
            OpCase { want: Nat::from_limbs(&x), repr_bound: x.len(), x, op: BigOp::Normalize, name: "normalize", strict: true, normalized_result: true }
        }
        11 => {
            let mut x = x;
            if Nat::from_limbs(&x).is_zero() {
                x = vec![11];
            }
            let room = (CAP + 2).saturating_sub(x.len()).max(1);
            let mut y = operand(r.b, r.sel[2], true, room.min(CAP));
            if y.is_empty() {
                y = vec![3];
            }
            let want = Nat::from_limbs(&x).mul(&Nat::from_limbs(&y));
            let repr = x.len() + y.len();
            let strict = Nat::from_limbs(&x).limbs() == x.len();
            OpCase { want, repr_bound: repr, x, op: BigOp::MulAssign(y), name: "Bigint *=", strict, normalized_result: false }
        }
        12 => {
            // the parser's pow(10, e) = pow5 then shl chain
            let mut x = if r.k[0] % 2 == 0 { vec![1 + k % 100000] } else { x };
            if Nat::from_limbs(&x).is_zero() {
                x = vec![9];
            }
            let xl = Nat::from_limbs(&x).limbs();
            let max_e = (((CAP + 1 - xl.min(CAP)) * 64) as f64 / 3.3219) as u32 + 10;
            let e = match r.k[1] % 3 {
                0 => r.k[2] % 400,
                1 => max_e.saturating_sub(r.k[2] % 40),
                _ => r.k[2] % (max_e + 1),
            };
            let want = Nat::from_limbs(&x).mul(&Nat::pow_small(5, e)).shl(e as u64);
            let strict = Nat::from_limbs(&x).limbs() == x.len();
            OpCase { want, repr_bound: usize::MAX, x, op: BigOp::PowThenShl(e, e as usize), name: "pow5 then shl (10^e)", strict, normalized_result: false }
        }
        _ => {
            // the parser's mul_small(10^k) then add_small(v) chain
            let m = 10u64.pow(1 + r.k[0] % if LIMB32 { 9 } else { 19 });
            let a = gen::mix(k) % m;
            let want = nx.mul_small(m).add_small(a);
            OpCase { want, repr_bound: x.len() + 2, x, op: BigOp::MulSmallAddSmall(m, a), name: "mul_small then add_small", strict, normalized_result: false }
        }
    }
}

fn violation(cfg: &Cfg, c: &OpCase, what: String, observed: Value) -> Failure {
    Failure::violation(
        format!("config {} ({}): {} {}", cfg.name, if cfg.alloc { "heap" } else { "stack" }, c.name, what),
        format!("bigint:{}:{}", c.name, if cfg.alloc { "heap" } else { "stack" }),
        json!({"kind": "bigint", "config": cfg.name, "op": format!("{:?}", c.op), "op_name": c.name, "x": full(&c.x),
               "expected_limbs": c.want.limbs(), "expected": full(&c.want.l), "observed": observed, "what": what}),
    )
}

pub fn check_op(c: &OpCase, cfg: &Cfg, stats: &mut Stats) -> Result<(), Failure> {
    if LIMB32 {
        return check_op_limb32(c, cfg, stats);
    }
    let fits = needs_limbs(&c.want) <= CAP;
    let out = catch(|| (cfg.big_apply)(&c.x, &c.op));
    let backend = if cfg.alloc { "heap" } else { "stack" };
    match out {
        Err(msg) => {
            // clean panic: allowed for `*=` on overflow, and for the heap back-end beyond the design capacity
            let overflow_ok = !fits && (matches!(c.op, BigOp::MulAssign(_)) || cfg.alloc);
            if overflow_ok {
                stats.count(&format!("{backend}:clean-panic-beyond-capacity"));
                return Ok(());
            }
            Err(violation(cfg, c, format!("panicked: {msg} at {}", last_panic_location()), json!({"panic": msg})))
        }
        Ok(BigOut::Failed) => {
            let repr_too_big = c.repr_bound > CAP;
            if fits && c.strict && !cfg.alloc {
                return Err(violation(cfg, c, format!("reported failure although the exact result needs only {} limbs", needs_limbs(&c.want)), json!("None")));
            }
            if fits && !c.strict && !repr_too_big && !cfg.alloc {
                return Err(violation(cfg, c, "reported failure although even the un-normalised representation fits".into(), json!("None")));
            }
            if fits && cfg.alloc && !repr_too_big {
                return Err(violation(cfg, c, "heap back-end reported failure for a result within the design capacity".into(), json!("None")));
            }
            stats.count(&format!("{backend}:reported-failure"));
            Ok(())
        }
        Ok(BigOut::Ok { limbs, len, capacity }) => {
            if Nat::from_limbs(&limbs) != c.want {
                return Err(violation(cfg, c, "returned a wrong value".into(), full(&limbs)));
            }
            if !cfg.alloc && (!fits || len > CAP || capacity != CAP) {
                return Err(violation(cfg, c, format!("stack back-end returned Some with len {len}, capacity {capacity} for a result needing {} limbs", needs_limbs(&c.want)), full(&limbs)));
            }
            if len != limbs.len() || len > capacity {
                return Err(violation(cfg, c, format!("inconsistent len {len} / capacity {capacity}"), full(&limbs)));
            }
            if c.normalized_result && limbs.last() == Some(&0) {
                return Err(violation(cfg, c, "promised a normalised result but left a leading zero limb".into(), full(&limbs)));
            }
            Ok(())
        }
    }
}

/// 32-bit-limb targets (interpreted by Miri with --target i686): the fixed capacity is 125 32-bit limbs, the
/// limb-indexed operations are translated by the mlc layer (n 64-bit limbs = 2n 32-bit limbs), and the
/// representation bounds of the 64-bit model are not exact there.  The value rule is unchanged (a result that is
/// returned must be exact, with consistent len <= capacity <= 125); a reported failure / clean panic is accepted
/// only if the result, or the representation bound of the 64-bit model, comes within two 64-bit limbs of the
/// 62-limb capacity - anything smaller fits in 125 32-bit limbs with room to spare.
fn check_op_limb32(c: &OpCase, cfg: &Cfg, stats: &mut Stats) -> Result<(), Failure> {
    const CAP32: usize = 125;
    let near_capacity = needs_limbs(&c.want).max(c.repr_bound).saturating_add(2) > CAP;
    let backend = if cfg.alloc { "heap" } else { "stack" };
    match catch(|| (cfg.big_apply)(&c.x, &c.op)) {
        Err(msg) => {
            if near_capacity && (matches!(c.op, BigOp::MulAssign(_)) || cfg.alloc) {
                stats.count(&format!("{backend}:clean-panic-beyond-capacity"));
                return Ok(());
            }
            Err(violation(cfg, c, format!("panicked (32-bit limbs): {msg} at {}", last_panic_location()), json!({"panic": msg})))
        }
        Ok(BigOut::Failed) => {
            if !near_capacity {
                return Err(violation(cfg, c, format!("reported failure (32-bit limbs) although the exact result needs only {} 64-bit limbs", needs_limbs(&c.want)), json!("None")));
            }
            stats.count(&format!("{backend}:reported-failure"));
            Ok(())
        }
        Ok(BigOut::Ok { limbs, len, capacity }) => {
            if Nat::from_limbs(&limbs) != c.want {
                return Err(violation(cfg, c, "returned a wrong value (32-bit limbs)".into(), full(&limbs)));
            }
            if (len + 1) / 2 != limbs.len() || len > capacity || (!cfg.alloc && capacity != CAP32) {
                return Err(violation(cfg, c, format!("inconsistent len {len} / capacity {capacity} (32-bit limbs)"), full(&limbs)));
            }
            Ok(())
        }
    }
}

fn check_observers(r: &Recipe, cfg: &Cfg, stats: &mut Stats) -> Result<(), Failure> {
    // normalised operands for hi64 / bit_length; any for is_normalized; ordering for normalised or equal-length pairs
    let x = if r.k[3] % 4 == 0 {
        // a value of at most 64 significant bits at an arbitrary bit offset (exactly representable in the top
        // 64 bits: the sticky flag must be false), or the same plus one far-away low bit (flag true)
        let width = 1 + (r.k[0] % 64) as u64;
        let v = (r.a >> (64 - width)) | (1u64 << (width - 1)) | if r.k[1] % 2 == 0 { 1 } else { 0 };
        let s = (r.b % (64 * (CAP as u64 - 1) - 1)) as u64;
        let mut n = Nat::from_u64(v).shl(s);
        if r.k[2] % 3 == 0 && s > 0 {
            n = n.add(&Nat::from_u64(1).shl(gen::mix(r.b) % s));
        }
        n.l.clone()
    } else {
        nonzero(operand(r.a, r.sel[1], true, CAP), r.b)
    };
    let nx = Nat::from_limbs(&x);
    let mk = |what: &str, expected: String, observed: String| {
        Failure::violation(
            format!("config {}: {} of a {}-limb number is {} but should be {}", cfg.name, what, x.len(), observed, expected),
            format!("bigint-observer:{what}"),
            json!({"kind": "bigint-observer", "config": cfg.name, "x": full(&x), "what": what, "expected": expected, "observed": observed}),
        )
    };
    let obs = catch(|| (cfg.big_observe)(&x)).map_err(|m| mk("observers", "no panic".into(), m))?;
    let (is_norm, bitlen, hi, _lz) = obs.ok_or_else(|| mk("try_from", "Some".into(), "None".into()))?;
    if !is_norm {
        return Err(mk("is_normalized", "true".into(), "false".into()));
    }
    if bitlen as u64 != nx.bits() {
        return Err(mk("bit_length", nx.bits().to_string(), bitlen.to_string()));
    }
    if hi != nx.hi64() {
        return Err(mk("hi64", format!("{:?}", nx.hi64()), format!("{:?}", hi)));
    }
    if x.len() >= 5 && nx.hi64().1 && !nx.low_bits_nonzero(nx.bits().saturating_sub(64 + 128)) {
        // unreachable in practice; keeps the sticky accounting honest
    }
    if x.len() >= 4 {
        // sticky bit decided by a limb >= 3 below the top?
        let low_only = x[..x.len() - 3].iter().any(|&l| l != 0) && x[x.len() - 3] == 0 && (x.len() < 2 || x[x.len() - 2] << x[x.len() - 1].leading_zeros() == 0 || x[x.len() - 1].leading_zeros() == 0);
        if low_only {
            stats.count("hi64-sticky-from-deep-limb");
        }
    }
    // un-normalised is_normalized
    let u = operand(r.b, r.sel[2], false, CAP);
    if let Ok(Some((n, _, _, _))) = catch(|| (cfg.big_observe)(&u)) {
        let want = u.last().map_or(true, |&t| t != 0);
        if n != want {
            return Err(mk("is_normalized(unnormalised)", want.to_string(), n.to_string()));
        }
    }
    // compare
    let y = match r.k[0] % 4 {
        0 => x.clone(),
        1 => {
            let mut y = x.clone();
            if !y.is_empty() {
                let i = (r.k[1] as usize) % y.len();
                y[i] = y[i].wrapping_add(1 + (r.k[2] % 3) as u64);
                if *y.last().unwrap() == 0 {
                    *y.last_mut().unwrap() = 1;
                }
            }
            y
        }
        _ => nonzero(operand(r.b ^ 1, r.sel[3], true, CAP), r.a),
    };
    let got = (cfg.big_compare)(&x, &y);
    let want = nx.cmp(&Nat::from_limbs(&y));
    if got != want {
        return Err(mk("compare", format!("{:?}", want), format!("{:?}", got)));
    }
    if (cfg.big_compare)(&y, &x) != want.reverse() {
        return Err(mk("compare (antisymmetry)", format!("{:?}", want.reverse()), format!("{:?}", (cfg.big_compare)(&y, &x))));
    }
    // from_u64 (with Bigint::hi64 / bit_length)
    let v = match r.k[3] % 4 {
        0 => 1,
        1 => scalar(r.b),
        _ => (r.b >> (r.k[2] % 64)).max(1),
    };
    let f = (cfg.bigint_from_u64)(v);
    let (limbs, rest) = f.split_at(f.len() - 3);
    let nv = Nat::from_u64(v);
    if Nat::from_limbs(limbs) != nv || limbs.last() == Some(&0) || (rest[0], rest[1] != 0) != nv.hi64() || rest[2] != nv.bits() {
        return Err(mk("Bigint::from_u64/hi64/bit_length", format!("{v} -> {:?} bits {}", nv.hi64(), nv.bits()), format!("{:?}", f)));
    }
    // the five word-level helpers behind hi64 (the 32-bit ones are dead code on a 64-bit-limb target, so they
    // are called directly): most significant word non-zero with every leading-zero count, lower words drawn
    // from {0, one low bit, one high bit, all ones, random}
    let word = |sel: u64, v: u64, bits: u32| -> u64 {
        let m = if bits == 64 { u64::MAX } else { (1u64 << bits) - 1 };
        (match sel % 6 {
            0 => 0,
            1 => 1,
            2 => 1u64 << (bits - 1),
            3 => m,
            4 => 1u64 << (v % bits as u64),
            _ => v,
        }) & m
    };
    for which in 0..5u32 {
        let bits: u32 = if which < 3 { 32 } else { 64 };
        let words = match which {
            0 | 3 => 1,
            1 | 4 => 2,
            _ => 3,
        };
        let h = gen::mix(r.a ^ r.b.rotate_left(which * 7 + 1) ^ which as u64);
        let lz = (h >> 8) % bits as u64;
        let m = if bits == 64 { u64::MAX } else { (1u64 << bits) - 1 };
        let top_body = word(h >> 16, gen::mix(h), bits);
        let r0 = ((top_body | (1u64 << (bits - 1))) & m) >> lz;
        let r1 = if words >= 2 { word(h >> 24, gen::mix(h ^ 1), bits) } else { 0 };
        let r2 = if words >= 3 { word(h >> 32, gen::mix(h ^ 2), bits) } else { 0 };
        let mut n = Nat::from_u64(r0);
        if words >= 2 {
            n = n.shl(bits as u64).add(&Nat::from_u64(r1));
        }
        if words >= 3 {
            n = n.shl(bits as u64).add(&Nat::from_u64(r2));
        }
        let want = n.hi64();
        let name = ["u32_to_hi64_1", "u32_to_hi64_2", "u32_to_hi64_3", "u64_to_hi64_1", "u64_to_hi64_2"][which as usize];
        let got = catch(|| (cfg.hi64_helper)(which, r0, r1, r2));
        if got != Ok(want) {
            return Err(Failure::violation(
                format!("config {}: {name}({r0:#x}, {r1:#x}, {r2:#x}) = {:?} but the top 64 bits / sticky flag are {:?}", cfg.name, got, want),
                format!("bigint-observer:{name}"),
                json!({"kind": "bigint-hi64-helper", "config": cfg.name, "which": which, "r0": r0, "r1": r1, "r2": r2, "expected": format!("{:?}", want), "observed": format!("{:?}", got)}),
            ));
        }
        if want.1 {
            stats.count("hi64-helper-sticky-set");
        } else if words >= 2 {
            stats.count("hi64-helper-multiword-exact");
        }
    }
    stats.count("observer-checks");
    Ok(())
}

pub fn check_recipe(r: &Recipe, stats: &mut Stats) -> Result<(), Failure> {
    check_recipe_cfgs(r, &[0, 2, 1, 3], stats)
}

pub fn check_recipe_cfgs(r: &Recipe, cfgs: &[usize], stats: &mut Stats) -> Result<(), Failure> {
    if r.sel[7] < 0x2800 {
        for &ci in cfgs {
            check_observers(r, &CFGS[ci], stats)?;
        }
        stats.class("observers (hi64, bit_length, compare, is_normalized, from_u64)");
        stats.nontrivial.push(gen::mix(r.a ^ r.b ^ 0x0b5));
        return Ok(());
    }
    if r.sel[7] < 0x2A80 {
        return check_far_beyond(r, cfgs, stats);
    }
    let c = op_case(r);
    stats.class(c.name);
    // both storage back-ends, with and without `compact` (pow uses LARGE_POW5 only without it)
    for &ci in cfgs {
        check_op(&c, &CFGS[ci], stats)?;
    }
    let need = needs_limbs(&c.want);
    let mut nt = false;
    if (60..=63).contains(&need) {
        stats.count("result-length-60..63");
        nt = true;
    }
    if need > CAP {
        stats.count("result-beyond-capacity");
        nt = true;
    }
    if let BigOp::Pow5(e) | BigOp::BigintPow(_, e) | BigOp::PowThenShl(e, _) = c.op {
        if e >= 27 {
            stats.count("pow-crossed-27");
            nt = true;
        }
        if e >= 135 {
            stats.count("pow-crossed-135");
        }
    }
    // carry across >= 2 limbs: result differs from x in >= 2 limbs above the first touched one (cheap proxy)
    if matches!(c.op, BigOp::SmallAdd(_) | BigOp::LargeAddFrom(..)) {
        let diff = c.want.l.iter().zip(c.x.iter()).filter(|(a, b)| a != b).count();
        if diff >= 3 {
            stats.count("carry-crossed->=2-limbs");
            nt = true;
        }
    }
    if c.x.len() >= 2 || matches!(c.op, BigOp::LongMul(_) | BigOp::LargeMul(_) | BigOp::MulAssign(_)) {
        nt = true;
    }
    if nt {
        stats.nontrivial.push(gen::mix(r.a ^ gen::mix(r.b) ^ (r.sel[0] as u64) << 48 ^ r.k[0] as u64 ^ (r.k[1] as u64) << 20));
        stats.sample(c.name, || json!({"x": desc(&c.x), "op": match &c.op {
            BigOp::LongMul(y) | BigOp::LargeMul(y) | BigOp::MulAssign(y) => json!({"y": desc(y)}),
            BigOp::LargeAddFrom(y, s) => json!({"y": desc(y), "start": s}),
            o => json!(format!("{:?}", o)),
        }, "exact_result_limbs": need}));
    }
    Ok(())
}

/// Counts FAR beyond the capacity (the statement's last sentence: "when a result does not fit the available
/// capacity the operation reports failure rather than wrapping, truncating or writing outside its buffer"):
/// exponents of 5 / 10 / 2 and shift counts taken from the whole u32 range by magnitude - 2^j + d, u32::MAX - d,
/// multiples of the pow step sizes (135, 27, 13) times 2^8 / 2^16 / 2^24 plus a remainder (where a narrowed step
/// counter would wrap), random - applied to a small operand on the FIXED-CAPACITY back-end only (the heap
/// back-end would have to build the number).  The exact result is never computed: it has more than 4100 bits by
/// construction, so the only acceptable outcome is a reported failure.
pub fn far_beyond_case(r: &Recipe) -> (Vec<u64>, BigOp, &'static str) {
    let k = gen::mix(r.b ^ 0xfa4);
    let x = match r.k[0] % 3 {
        0 => vec![1],
        1 => vec![scalar(k)],
        _ => nonzero(operand(r.a, r.sel[1], true, 3), k),
    };
    let step = [27u64, 135, 13, 1][(r.k[1] % 4) as usize];
    let e: u32 = match r.k[2] % 6 {
        0 => {
            let j = 11 + (r.k[3] % 21);
            (1u32 << j).wrapping_add((r.k[3] >> 8) % 5).wrapping_sub(2)
        }
        1 => u32::MAX - (r.k[3] % 64),
        2 => {
            let s = [8u32, 16, 24][(r.k[3] % 3) as usize];
            let m = 1 + ((r.k[3] >> 4) % 8) as u64;
            (step * (m << s) + ((r.k[3] >> 12) as u64 % (step * 64))).min(u32::MAX as u64) as u32
        }
        3 => 2000 + (r.a % (u32::MAX as u64 - 2000)) as u32,
        4 => 1800 + r.k[3] % 3000,
        _ => {
            // a step count of the form 2^16 * m + t: exponent = step * count + remainder
            let count = (((r.k[3] % 15) as u64 + 1) << 16) + (r.a >> 40) % 70;
            (step * count + (r.b >> 50) % step.max(1)).min(u32::MAX as u64) as u32
        }
    }
    .max(1800);
    match (r.k[0] / 3) % 7 {
        0 => (x, BigOp::Pow5(e), "pow(5^e), e far beyond capacity"),
        1 => (x, BigOp::BigintPow(5, e), "Bigint::pow(5, e), e far beyond capacity"),
        2 => (x, BigOp::BigintPow(10, e), "Bigint::pow(10, e), e far beyond capacity"),
        3 => (x, BigOp::BigintPow(2, e.max(4200)), "Bigint::pow(2, e), e far beyond capacity"),
        4 => (x, BigOp::PowThenShl(e, e as usize), "pow5 then shl, e far beyond capacity"),
        5 => (x, BigOp::Shl(4200 + (e as usize % (1 << 24))), "shl, count far beyond capacity"),
        _ => (x, BigOp::ShlLimbs(63 + (e as usize % (1 << 20))), "shl_limbs, count far beyond capacity"),
    }
}

pub fn check_far_beyond(r: &Recipe, cfgs: &[usize], stats: &mut Stats) -> Result<(), Failure> {
    let (x, op, name) = far_beyond_case(r);
    for &ci in cfgs {
        let cfg = &CFGS[ci];
        if cfg.alloc {
            continue;
        }
        let out = catch(|| (cfg.big_apply)(&x, &op));
        let what = match out {
            Ok(BigOut::Failed) => {
                stats.count("stack:reported-failure-far-beyond-capacity");
                continue;
            }
            Ok(BigOut::Ok { limbs, len, .. }) => format!("reported success (len {len}, value of {} limbs) although the exact result has more than 4100 bits", Nat::from_limbs(&limbs).limbs()),
            Err(msg) => format!("panicked instead of reporting failure: {msg} at {}", last_panic_location()),
        };
        return Err(Failure::violation(
            format!("config {} (stack): {name}: {:?} on {:?} {what}", cfg.name, op, x),
            format!("bigint-far-beyond:{}", name),
            json!({"kind": "bigint-far-beyond", "config": cfg.name, "op": format!("{:?}", op), "op_name": name, "x": full(&x), "what": what}),
        ));
    }
    stats.class("far beyond capacity (must report failure)");
    stats.nontrivial.push(gen::mix(r.a ^ gen::mix(r.b) ^ 0xfa4 ^ (r.k[2] as u64) << 40 ^ (r.k[3] as u64) << 8));
    Ok(())
}

pub fn run(ctx: &Ctx) -> i32 {
    let mut rep = Report::new(
        "One big-integer operation (or one of the short compositions the parser uses) per case, on operands whose \
         lengths hover around the 62-limb capacity (0,1,2,...,31,57..62 limbs; random, patterned {0,1,MAX,MAX-1,2^63, \
         2^32+-1}, all-MAX and sparse limbs), applied through the crate's public bigint API in four configurations \
         (stack and heap storage, with and without `compact`), compared with the harness's Nat: small_add, small_mul, \
         large_add_from (any start <= 62), long_mul, large_mul, Bigint *= (non-zero factors), pow and Bigint::pow for \
         bases 2/5/10 with exponents crossing 27 and 135 and reaching capacity, shl_bits 1..63, shl_limbs, shl up to \
         4100 bits, normalize, plus observers hi64 / bit_length / is_normalized / compare (normalised or equal-length \
         operands) / from_u64. Rule: result fits 62 limbs => Some(exact) (and normalised where promised); does not \
         fit => the stack back-end must report failure (clean panic for *=), the heap back-end may do either but \
         never a wrong value. About 1% of the cases take exponents and shift counts FAR beyond the capacity (whole u32 \
         range by magnitude, multiples of the pow step sizes times 2^8/2^16/2^24) on the fixed-capacity back-end, \
         where the only acceptable outcome is a reported failure. The same cases run in a build with debug assertions, overflow checks and core's \
         UB-precondition checks ('writing outside its buffer'). Non-trivial: multi-limb operand or multiplication, \
         result length 60..63, beyond capacity, pow crossing 27/135, or a carry across >= 2 limbs; distinct by \
         recipe fingerprint.",
    );
    rep.assume("all operands (big integers, multipliers, addends) are non-zero, shifts are >= 1, as the property's quantifier says");
    rep.assume("un-normalised operands (20% of cases): failure is accepted when the un-normalised representation would exceed 62 limbs");
    rep.assume("contents after a failed operation are unspecified and not inspected");
    let cases = ctx.cases(1_500_000, 150_000_000);
    let r = run_recipes(ctx.seed, cases, ctx.threads, 12, |r, stats| check_recipe(r, stats));
    rep.absorb(r);
    for k in ["result-length-60..63", "result-beyond-capacity", "pow-crossed-135", "stack:reported-failure", "stack:reported-failure-far-beyond-capacity", "observer-checks"] {
        require_counter(&mut rep, k, 1000);
    }
    finish(ctx, rep)
}

pub fn replay(v: &Value) -> Result<bool, String> {
    let r = Recipe::from_json(&v["recipe"]).ok_or("replay: C12 replays need the recipe")?;
    let mut st = Stats::default();
    match check_recipe(&r, &mut st) {
        Ok(()) => Ok(false),
        Err(f) => {
            println!("replay: {}", f.message);
            Ok(true)
        }
    }
}

#[allow(dead_code)]
fn _unused(_: Ordering) {}
