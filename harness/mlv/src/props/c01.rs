//! C01 / C02: parse results are correctly rounded (f64 / f32), every configuration.

use super::common::{account, all_cfgs, check_rounding, replay_parse};
use crate::gen::{self, Limits};
use crate::oracle::Fmt;
use crate::runner::{finish, require_counter, run_recipes, Ctx, Report, Tier};

pub fn run(ctx: &Ctx, fmt: Fmt) -> i32 {
    let lim: Limits = ctx.tier.pick(gen::QUICK, gen::THOROUGH);
    let cfgs = all_cfgs();
    let mut rep = Report::new(
        "Cases are generated from a mixture of families built from the rounding boundaries outward \
         (G-B exact midpoints and perturbations, G-C continued-fraction closest approaches, G-A shaped random, \
         G-D short exact ties (also zero-padded across the digit limit), G-E algorithm and product seams, G-F range \
         ends and uncompensable exponents, G-G long tails, G-M Lemire lo==MAX pairs, G-N sparse-limb integers, G-P \
         powers of two next to a boundary, G-R special 19-digit prefixes, G-T tie integers by bit length, G-I interior points of the rounding interval for special floats and subnormals of every bit length), parsed in all 8 feature \
         configurations and judged by the exact boundary-comparison oracle. A case is non-trivial if the real \
         code takes the big-integer path in the default or compact configuration, or digits were truncated \
         (many_digits), or the result is subnormal / MAX / inf / zero-by-underflow, or the value shares >= 16 (f64) \
         / 8 (f32) leading digits with a rounding boundary of its result; distinct by fingerprint of \
         (integer, fraction, exponent).",
    );
    rep.assume("oracle: exact decimal expansions of the two neighbouring midpoints computed with the harness's own Nat; validated by the oracle self-test against golden vectors and std on every run");
    rep.assume("the generated-input search runs natively on x86_64; the crate's 32-bit-limb code is covered by the interpreted i686 stage only (48 quick / 1200 thorough inputs with oracle verdicts); big-endian targets and the x87 `nightly` path are not executed");
    let cases = ctx.cases(1_600_000, 60_000_000);
    let r = run_recipes(ctx.seed, cases, ctx.threads, 1, |r, stats| {
        let c = gen::mixed(fmt, r, lim);
        let bits = check_rounding(fmt, &c, &cfgs)?;
        account(fmt, &c, bits, stats, true);
        Ok(())
    });
    rep.absorb(r);
    if rep.violations.is_empty() {
        boundary_sweep(ctx, &mut rep, fmt);
    }
    rep.extra.insert("configurations".into(), serde_json::json!(cfgs.iter().map(|c| c.name).collect::<Vec<_>>()));
    rep.extra.insert("format".into(), serde_json::json!(fmt.name()));
    rep.extra.insert("max_digits_generated".into(), serde_json::json!(lim.huge));
    require_counter(&mut rep, "near-boundary", 1000);
    require_counter(&mut rep, "many_digits", 1000);
    require_counter(&mut rep, "path[default]:slow-negative", 100);
    require_counter(&mut rep, "path[default]:slow-positive", 100);
    let _ = Tier::Quick;
    finish(ctx, rep)
}

/// The finite set of f32 rounding boundaries (2^31 - 2^23 midpoints between
/// adjacent non-negative values, plus the overflow threshold): each boundary H
/// is parsed as H (tie -> even), H||1 (-> upper neighbour) and (H - 1 unit in
/// the last place)||9 (-> lower neighbour); expectation by construction from
/// the exact expansion of H (own Nat), cross-checked by the oracle on a sample.
/// Quick: a seed-chosen residue class; thorough: all of them.
///
/// For f64 the boundaries cannot be enumerated; instead a structured grid is: every one of the 2047
/// exponent fields (incl. subnormals) x fractions {0, 1, 2, all-ones, all-ones-1, every single-one,
/// single-zero, low-run and high-run pattern, 256 seed-derived random ones} (~470 patterns), i.e. about
/// 960 000 boundaries x 3 inputs; a 1/16 class in quick, all of it in thorough.
fn boundary_sweep(ctx: &Ctx, rep: &mut Report, fmt: Fmt) {
    use crate::oracle::{self, Verdict};
    use crate::runner::{run_sweep, Failure};
    let mb = fmt.mbits();
    let fracs: Vec<u64> = if fmt == Fmt::F64 {
        let all = (1u64 << mb) - 1;
        let mut f = vec![0, 1, 2, all, all - 1];
        for j in 0..mb {
            f.extend([1u64 << j, all ^ (1u64 << j), (1u64 << j) - 1, all ^ ((1u64 << j) - 1)]);
        }
        let mut s = ctx.seed ^ 0xf64;
        for _ in 0..256 {
            s = gen::mix(s);
            f.push(s & all);
        }
        f.sort_unstable();
        f.dedup();
        f
    } else {
        Vec::new()
    };
    let total = if fmt == Fmt::F32 { Fmt::F32.inf_bits() } else { fracs.len() as u64 * 2047 }; // x in [0, inf): boundary above x
    let stride: u64 = match (ctx.sweep_tier(), fmt) {
        (Tier::Quick, Fmt::F32) => 512,
        (Tier::Quick, Fmt::F64) => 16,
        (Tier::Thorough, _) => 1,
    };
    let off = ctx.seed % stride;
    let count = (total - off + stride - 1) / stride;
    let cfg_all = all_cfgs();
    let r = run_sweep(count, ctx.threads, |i, stats| {
        let idx = off + i * stride;
        let x = if fmt == Fmt::F32 { idx } else { ((idx / fracs.len() as u64) << mb) | fracs[(idx % fracs.len() as u64) as usize] };
        let h = oracle::hi(fmt, x);
        let mut digits: Vec<u8> = h.digits.iter().map(|d| d + b'0').collect();
        // an integer-valued boundary: restore its trailing zeros so that appended digits are fractional
        while (digits.len() as i64) < h.point {
            digits.push(b'0');
        }
        let e10 = h.point - digits.len() as i64;
        let tie_even = if x & 1 == 0 { x } else { x + 1 };
        // three inputs, integer-only and (for variety) fraction-only layout alternating
        let mut up = digits.clone();
        up.push(b'1');
        let mut down = digits.clone();
        let mut j = down.len() - 1;
        while down[j] == b'0' {
            down[j] = b'9';
            j -= 1;
        }
        down[j] -= 1;
        down.push(b'9');
        let lz = down.iter().take_while(|&&c| c == b'0').count();
        let down_lz = lz;
        let cases: [(&[u8], i64, u64, &str); 3] = [(&digits, e10, tie_even, "tie"), (&up, e10 - 1, x + 1, "tie+digit"), (&down[down_lz..], e10 - 1, x, "tie-1ulp+9")];
        let cfgs: &[&'static crate::cfgs::Cfg] = if i % 16 == 0 { &cfg_all } else { &cfg_all[..2] };
        for (d, e, want, kind) in cases {
            let frac_layout = (i / 3) % 2 == 1 && *d.last().unwrap() != b'0';
            let (int, frac, exp): (&[u8], &[u8], i32) = if frac_layout { (&[], d, (e + d.len() as i64) as i32) } else { (d, &[], e as i32) };
            for cfg in cfgs {
                let got = crate::runner::catch(|| cfg.parse(fmt, int, frac, exp));
                if got != Ok(want) {
                    return Err(Failure::violation(
                        format!("{} boundary above {}: {} input parsed as {:?} in config {}, expected {}", fmt.name(), fmt.hex(x), kind, got.as_ref().map(|b| fmt.hex(*b)), cfg.name, fmt.hex(want)),
                        format!("misround:{}:{}:boundary-{}", if cfg.compact { "compact" } else { "lemire" }, fmt.name(), kind),
                        super::common::raw_detail(fmt, cfg.name, int, frac, exp, serde_json::json!({"boundary_above": fmt.hex(x), "kind": kind, "expected_bits": fmt.hex(want)})),
                    ));
                }
            }
            if i % (if fmt == Fmt::F32 { 4096 } else { 64 }) == 0 && oracle::judge(fmt, want, int, frac, exp as i64) != Verdict::Correct {
                return Err(Failure::harness("boundary sweep: by-construction expectation disagrees with the oracle".into(), serde_json::json!({"x": x, "kind": kind})));
            }
        }
        if i % (if fmt == Fmt::F32 { 1_000_003 } else { 10_007 }) == 0 {
            stats.sample(&format!("{} boundary sweep", fmt.name()), || serde_json::json!({"boundary_above_bits": fmt.hex(x), "digits": digits.len(), "exponent10": e10}));
        }
        Ok(())
    });
    let n = r.stats.evaluations;
    rep.absorb(r);
    rep.stats.add(&format!("{}-boundaries-swept", fmt.name()), n);
    rep.extra.insert(
        format!("{}_boundary_sweep", fmt.name()),
        serde_json::json!({"boundaries_total": total, "stride": stride, "offset": off, "swept": n, "inputs_per_boundary": 3, "complete": stride == 1 && fmt == Fmt::F32,
                           "domain": if fmt == Fmt::F32 { "every boundary between adjacent non-negative f32 values" } else { "structured grid: 2047 exponent fields x ~470 fraction patterns" },
                           "configs": "default+compact for every boundary, all 8 for every 16th"}),
    );
    // every swept boundary is a distinct non-trivial case by construction (enumeration index)
    let base = rep.stats.distinct_nontrivial();
    rep.extra.insert("distinct_nontrivial_override".into(), serde_json::json!(base + n));
}

pub fn replay(v: &serde_json::Value) -> Result<bool, String> {
    replay_parse(v)
}
