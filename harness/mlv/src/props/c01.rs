//! C01 / C02: parse results are correctly rounded (f64 / f32), every configuration.

use super::common::{account, all_cfgs, check_rounding, replay_parse};
use crate::gen::{self, Limits};
use crate::oracle::Fmt;
use crate::runner::{finish, require_counter, run_recipes, Ctx, Report, Tier};

pub fn run(ctx: &Ctx, fmt: Fmt) -> i32 {
    let lim: Limits = ctx.tier.pick(gen::QUICK, gen::THOROUGH);
    let cfgs = all_cfgs();
    let mut rep = Report::new(
        "Cases are generated from a mixture of families built from the rounding boundaries outward \
         (G-B exact midpoints and perturbations, G-C continued-fraction closest approaches, G-A shaped random, \
         G-D short exact ties, G-E algorithm seams, G-F range ends, G-G long tails), parsed in all 8 feature \
         configurations and judged by the exact boundary-comparison oracle. A case is non-trivial if the real \
         code takes the big-integer path in the default or compact configuration, or digits were truncated \
         (many_digits), or the result is subnormal / MAX / inf / zero-by-underflow, or the value shares >= 16 (f64) \
         / 8 (f32) leading digits with a rounding boundary of its result; distinct by fingerprint of \
         (integer, fraction, exponent).",
    );
    rep.assume("oracle: exact decimal expansions of the two neighbouring midpoints computed with the harness's own Nat; validated by the oracle self-test against golden vectors and std on every run");
    rep.assume("x86_64 only: 32-bit limbs, big-endian and the x87 `nightly` path are not executed");
    let cases = ctx.cases(1_600_000, 60_000_000);
    let r = run_recipes(ctx.seed, cases, ctx.threads, 1, |r, stats| {
        let c = gen::mixed(fmt, r, lim);
        let bits = check_rounding(fmt, &c, &cfgs)?;
        account(fmt, &c, bits, stats, true);
        Ok(())
    });
    rep.absorb(r);
    rep.extra.insert("configurations".into(), serde_json::json!(cfgs.iter().map(|c| c.name).collect::<Vec<_>>()));
    rep.extra.insert("format".into(), serde_json::json!(fmt.name()));
    rep.extra.insert("max_digits_generated".into(), serde_json::json!(lim.huge));
    require_counter(&mut rep, "near-boundary", 1000);
    require_counter(&mut rep, "many_digits", 1000);
    require_counter(&mut rep, "path[default]:slow-negative", 100);
    require_counter(&mut rep, "path[default]:slow-positive", 100);
    let _ = Tier::Quick;
    finish(ctx, rep)
}

pub fn replay(v: &serde_json::Value) -> Result<bool, String> {
    replay_parse(v)
}
