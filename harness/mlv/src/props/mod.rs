pub mod c01;
pub mod c03;
pub mod c05;
pub mod c06;
pub mod c07;
pub mod c09;
pub mod c10;
pub mod common;
