pub mod common;
pub mod c01;
