//! C15: no heap allocation unless the alloc feature is enabled.

use crate::alloc_count::count;
use crate::cfgs::CFGS;
use crate::gen::{self, pick_w, Limits};
use crate::oracle::Fmt;
use crate::runner::{finish, require_counter, run_recipes, Ctx, Failure, Report};
use serde_json::json;

pub fn run(ctx: &Ctx) -> i32 {
    let lim: Limits = ctx.tier.pick(gen::QUICK, Limits { long: 10_000, huge: 100_000 });
    let mut rep = Report::new(
        "The harness binary's #[global_allocator] wraps System and bumps a const-initialised thread-local counter on \
         alloc/alloc_zeroed/realloc. Around each parse_float call (inputs pre-built, result returned by value, no \
         panic) the counter delta must be 0 in the four configurations without `alloc` (default, compact, no_std, \
         no_std+compact); in the four `alloc` configurations the same inputs must show delta > 0 whenever the \
         big-integer path ran - that positive control is checked on every case, so a dead counter cannot pass. Each \
         input is parsed twice in the no-alloc configurations: through slice iterators and through filter iterators \
         over pre-built '_'-separated buffers (inexact size hints). The whole check runs in two builds of the harness - \
         release (opt-level 3) and dbgchk (opt-level 1, debug assertions on) - because the optimiser may elide an \
         allocation that an unoptimised build of the same source performs. A second sub-check applies C12's generated \
         big-integer operations (small/large add and mul, long_mul, pow, shifts, *=) directly in the configurations \
         without `alloc` and requires a zero delta around the library call itself (positive control: the heap \
         configurations allocate). Inputs: \
         the midpoint / long-tail / closest-approach families weighted to the big-integer path (negative and positive \
         digit comparison, 5-powers >= 135 so large_mul/long_mul temporaries exist), plus shaped random and range \
         ends, f32 and f64. Non-trivial: the real code took the big-integer path (default or compact \
         configuration); distinct by fingerprint of (format, input).",
    );
    rep.assume("'any input' is read as any valid input (the property's quantifier); allocation while panicking on invalid input is out of scope");
    let cases = ctx.cases(800_000, 40_000_000);
    let r = run_recipes(ctx.seed, cases, ctx.threads, 15, |r, stats| {
        let fmt = if r.sel[7] & 1 == 0 { Fmt::F64 } else { Fmt::F32 };
        let c = match pick_w(r.sel[0], &[33, 24, 19, 10, 10, 4]) {
            5 => {
                if fmt == Fmt::F64 {
                    gen::g_n(r)
                } else {
                    gen::g_p(fmt, r)
                }
            }
            0 => gen::g_b(fmt, r, lim),
            1 => gen::g_g(fmt, r, lim),
            2 => gen::g_c(fmt, r, lim),
            3 => gen::g_f(fmt, r, lim),
            _ => gen::g_a(fmt, r, lim),
        };
        let pd = CFGS[0].path(fmt, &c.int, &c.frac, c.exp);
        let pc = CFGS[1].path(fmt, &c.int, &c.frac, c.exp);
        let (int, frac, exp) = (&c.int[..], &c.frac[..], c.exp);
        // the same digits with `_` separators, to be read through filter iterators (inexact size hints)
        let sep = |s: &[u8]| -> Vec<u8> {
            let mut o = Vec::with_capacity(s.len() + s.len() / 3 + 2);
            o.push(b'_');
            for (i, &b) in s.iter().enumerate() {
                o.push(b);
                if i % 3 == 2 {
                    o.push(b'_');
                }
            }
            o
        };
        let (int_sep, frac_sep) = (sep(int), sep(frac));
        for cfg in CFGS.iter() {
            if !cfg.alloc {
                let g = match fmt {
                    Fmt::F32 => cfg.parse_sep32,
                    Fmt::F64 => cfg.parse_sep64,
                };
                let before = count();
                let bits = crate::runner::catch(|| g(&int_sep, &frac_sep, exp));
                let delta = count() - before;
                if bits.is_ok() && delta != 0 {
                    return Err(Failure::violation(
                        format!("config {} (no alloc feature) performed {} heap allocation(s) parsing {}.{}e{} as {} through filter iterators", cfg.name, delta, gen::abbreviate(int), gen::abbreviate(frac), exp, fmt.name()),
                        format!("alloc:{}:filter-iterators", cfg.name),
                        json!({"kind": "parse", "format": fmt.name(), "config": cfg.name, "integer": String::from_utf8_lossy(int), "fraction": String::from_utf8_lossy(frac), "exponent": exp,
                               "extra": {"allocations": delta, "via": "filter iterators over '_'-separated buffers"}}),
                    ));
                }
                stats.count("filter-iterator-calls");
            }
            let f = match fmt {
                Fmt::F32 => cfg.parse32,
                Fmt::F64 => cfg.parse64,
            };
            let before = count();
            let bits = crate::runner::catch(|| f(int, frac, exp));
            let delta = count() - before;
            if bits.is_err() {
                // a panic on valid input is C04's business; the allocation count of an unwinding call is not meaningful
                stats.count("panicked-calls-skipped(see C04)");
                continue;
            }
            std::hint::black_box(bits);
            let slow_here = if cfg.compact { pc.slow } else { pd.slow };
            if !cfg.alloc && delta != 0 {
                return Err(Failure::violation(
                    format!("config {} (no alloc feature) performed {} heap allocation(s) parsing {}.{}e{} as {}", cfg.name, delta, gen::abbreviate(int), gen::abbreviate(frac), exp, fmt.name()),
                    format!("alloc:{}:{}", cfg.name, if slow_here { "slow" } else { "fast-or-moderate" }),
                    json!({"kind": "parse", "format": fmt.name(), "config": cfg.name, "integer": String::from_utf8_lossy(int), "fraction": String::from_utf8_lossy(frac), "exponent": exp,
                           "extra": {"allocations": delta}}),
                ));
            }
            if cfg.alloc && slow_here {
                if delta == 0 {
                    return Err(Failure::harness(format!("positive control failed: config {} took the big-integer path without a counted allocation", cfg.name), json!({})));
                }
                stats.count("positive-control(alloc-config-allocated)");
            }
        }
        stats.class(&format!("{} / {}", c.family, c.variant));
        if pd.slow || pc.slow {
            stats.count("big-integer-path");
            let five_power = -(pd.exponent as i64) >= 135 || c.sig_len() as i64 - (c.exp as i64 + c.int.len() as i64) >= 135;
            if five_power && (pd.slow_negative || pc.slow_negative) {
                stats.count("big-integer-path-with-5^>=135");
            }
            stats.nontrivial.push(c.fingerprint() ^ fmt as u64);
            stats.sample(&format!("{} {}", fmt.name(), c.family), || {
                let mut d = c.describe();
                d["path_default"] = json!(pd.label());
                d["path_compact"] = json!(pc.label());
                d
            });
        }
        Ok(())
    });
    rep.absorb(r);
    // second sub-check: the big-integer API itself (C12's generated operations) in the configurations without
    // `alloc`.  The library call is bracketed inside mlc (operands converted outside the window).
    crate::cfgs::set_alloc_probe(count);
    let api_cases = ctx.cases(300_000, 10_000_000);
    let r2 = run_recipes(ctx.seed ^ 0x15a, api_cases, ctx.threads, 15, |r, stats| {
        let c = super::c12::op_case(r);
        for cfg in CFGS.iter() {
            let out = crate::runner::catch(|| (cfg.big_apply)(&c.x, &c.op));
            let Ok(out) = out else {
                stats.count("api:panicked-calls-skipped(see C12)");
                continue;
            };
            let delta = crate::cfgs::last_op_allocs();
            if !cfg.alloc && delta != 0 {
                return Err(Failure::violation(
                    format!("config {} (no alloc feature): big-integer operation {} performed {} heap allocation(s) on a {}-limb operand", cfg.name, c.name, delta, c.x.len()),
                    format!("alloc-api:{}:{}", cfg.name, c.name),
                    json!({"kind": "bigint-alloc", "config": cfg.name, "op": format!("{:?}", c.op), "op_name": c.name, "x": c.x.iter().map(|l| format!("{:#x}", l)).collect::<Vec<_>>(), "extra": {"allocations": delta}}),
                ));
            }
            if cfg.alloc && delta > 0 && matches!(out, crate::cfgs::BigOut::Ok { .. }) {
                stats.count("api:positive-control(heap-config-allocated)");
            }
        }
        stats.class(&format!("api / {}", c.name));
        stats.count("api:operations");
        stats.nontrivial.push(crate::gen::mix(r.a ^ r.b.rotate_left(17) ^ 0x15a));
        Ok(())
    });
    rep.absorb(r2);
    require_counter(&mut rep, "api:positive-control(heap-config-allocated)", 1000);
    require_counter(&mut rep, "big-integer-path", 1000);
    require_counter(&mut rep, "big-integer-path-with-5^>=135", 1000);
    require_counter(&mut rep, "positive-control(alloc-config-allocated)", 1000);
    finish(ctx, rep)
}

pub fn replay(v: &serde_json::Value) -> Result<bool, String> {
    let case = &v["case"];
    if case["kind"] == "bigint-alloc" {
        let r = crate::gen::Recipe::from_json(&v["recipe"]).ok_or("replay: a bigint-alloc replay needs the recipe")?;
        crate::cfgs::set_alloc_probe(count);
        let c = super::c12::op_case(&r);
        let mut bad = false;
        for cfg in CFGS.iter() {
            if crate::runner::catch(|| (cfg.big_apply)(&c.x, &c.op)).is_ok() {
                let delta = crate::cfgs::last_op_allocs();
                println!("replay: config {} {} -> {} allocation(s)", cfg.name, c.name, delta);
                if !cfg.alloc && delta != 0 {
                    bad = true;
                }
            }
        }
        return Ok(bad);
    }
    let fmt = match case["format"].as_str() {
        Some("f32") => Fmt::F32,
        Some("f64") => Fmt::F64,
        _ => return Err("replay: missing format".into()),
    };
    let int = case["integer"].as_str().ok_or("integer")?.as_bytes().to_vec();
    let frac = case["fraction"].as_str().ok_or("fraction")?.as_bytes().to_vec();
    let exp = case["exponent"].as_i64().ok_or("exponent")? as i32;
    let mut bad = false;
    for cfg in CFGS.iter() {
        let f = match fmt {
            Fmt::F32 => cfg.parse32,
            Fmt::F64 => cfg.parse64,
        };
        let before = count();
        let bits = f(&int, &frac, exp);
        let delta = count() - before;
        println!("replay: config {} -> {} with {} allocation(s)", cfg.name, fmt.hex(bits), delta);
        if !cfg.alloc && delta != 0 {
            bad = true;
        }
    }
    Ok(bad)
}
