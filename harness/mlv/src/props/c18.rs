//! C18: the shift-and-round primitive produces the nearest float for every shift.

use crate::cfgs::{Cfg, CFGS};
use crate::gen;
use crate::oracle::Fmt;
use crate::runner::{catch, finish, last_panic_location, run_sweep, Ctx, Failure, Report, Stats, Tier};
use serde_json::json;

/// Reference: correctly rounded (nearest-even or truncated) bits of
/// mant * 2^(exp - BIAS), BIAS = ieee bias + fraction bits, in exact integer
/// arithmetic.  Returns (bits, overflowed).
fn reference(fmt: Fmt, mant: u64, exp: i32, nearest: bool) -> (u64, bool) {
    let p = fmt.mbits() as i64 + 1;
    let e = exp as i64 - (fmt.bias() + fmt.mbits() as i64); // value = mant * 2^e
    let emin_sub = 1 - fmt.bias() - fmt.mbits() as i64; // exponent of the subnormal ulp
    let msb = e + 63;
    let mut ue = (msb - (p - 1)).max(emin_sub); // ulp exponent of the result
    let shift = ue - e; // low bits of mant dropped
    debug_assert!(shift >= 64 - p);
    let m = mant as u128;
    let mut kept: u128;
    if shift > 64 {
        kept = 0; // value < half an ulp (mant < 2^64 <= 2^(shift-1))
    } else {
        kept = m >> shift;
        let dropped = m & ((1u128 << shift) - 1);
        let half = 1u128 << (shift - 1);
        if nearest && (dropped > half || (dropped == half && kept & 1 == 1)) {
            kept += 1;
        }
    }
    if kept == 0 {
        return (0, false);
    }
    if kept == 1u128 << p {
        kept >>= 1;
        ue += 1;
    }
    let biased = if kept < 1u128 << (p - 1) { 0 } else { ue - emin_sub + 1 };
    if biased >= (1i64 << fmt.ebits()) - 1 {
        return (fmt.inf_bits(), true);
    }
    let frac = (kept as u64) & ((1u64 << fmt.mbits()) - 1);
    (((biased as u64) << fmt.mbits()) | frac, false)
}

fn check(fmt: Fmt, mant: u64, exp: i32, nearest: bool, cfg: &Cfg, stats: &mut Stats) -> Result<(), Failure> {
    let detail = |got: Option<(u64, i32)>, bits: Option<u64>, want: u64| {
        json!({"kind": "round", "format": fmt.name(), "config": cfg.name, "mant": mant, "exp": exp, "nearest": nearest,
               "returned": got.map(|(m, e)| json!({"mant": m, "exp": e})), "packed": bits.map(|b| fmt.hex(b)), "expected": fmt.hex(want)})
    };
    let (want, overflow) = reference(fmt, mant, exp, nearest);
    let r = catch(|| cfg.round(fmt, mant, exp, nearest));
    let (m, e) = match r {
        Ok(x) => x,
        Err(msg) => {
            return Err(Failure::violation(
                format!("config {}: round::<{}> panicked on mant={mant:#x} exp={exp} nearest={nearest}: {msg} at {}", cfg.name, fmt.name(), last_panic_location()),
                format!("round-panic:{}", fmt.name()),
                detail(None, None, want),
            ))
        }
    };
    let bits = cfg.pack(fmt, m, e);
    // truncating variant beyond the largest finite value: the statement's "largest float not
    // above" is MAX, the primitive's documented overflow behaviour is infinity; accept both.
    let ok = bits == want || (!nearest && overflow && bits == fmt.max_finite_bits());
    if !ok {
        return Err(Failure::violation(
            format!(
                "config {}: round::<{}>({}) of mant={mant:#018x} exp={exp} packs to {} but mant*2^(exp-bias) rounds to {}",
                cfg.name, fmt.name(), if nearest { "nearest-even" } else { "truncate" }, fmt.hex(bits), fmt.hex(want)
            ),
            format!("round:{}:{}", fmt.name(), if nearest { "nearest" } else { "down" }),
            detail(Some((m, e)), Some(bits), want),
        ));
    }
    if overflow {
        stats.count("overflow-to-inf");
    } else if fmt.is_subnormal(want) || want == 0 {
        stats.count("subnormal-or-zero-result");
    } else if want == 1u64 << fmt.mbits() {
        stats.count("result-min-normal");
    }
    Ok(())
}

fn exp_range(fmt: Fmt) -> (i32, i32) {
    match fmt {
        Fmt::F32 => (-63, 320),
        Fmt::F64 => (-63, 2100),
    }
}

/// Structured significands for the cut implied by `exp`: kept-bit patterns x dropped-bit patterns.
fn structured(fmt: Fmt, exp: i32) -> Vec<u64> {
    let p = fmt.mbits() as i64 + 1;
    let normal_shift = 64 - p;
    // subnormal shift: round() uses shift = 1 - exp when -exp >= normal_shift
    let shift = if -(exp as i64) >= normal_shift { (1 - exp as i64).min(64) } else { normal_shift } as u32;
    let mask = if shift == 64 { u64::MAX } else { (1u64 << shift) - 1 };
    let half = 1u64 << (shift - 1);
    // dropped-bit patterns: the basic ones ...
    let mut d_basic = vec![0, 1 & mask, half.wrapping_sub(1) & mask, half, (half + 1) & mask, mask, mask - 1, half | (half >> 1)];
    d_basic.sort_unstable();
    d_basic.dedup();
    // ... and every single dropped bit, half plus every single lower bit, all ones except one bit, every low run of ones
    let mut d_all = d_basic.clone();
    for j in 0..shift.min(64) {
        let b = 1u64 << j;
        d_all.extend([b & mask, (half | b) & mask, (mask ^ b) & mask, b.wrapping_sub(1) & mask]);
    }
    d_all.sort_unstable();
    d_all.dedup();
    let kept_bits = 64 - shift;
    let (k_basic, k_all): (Vec<u64>, Vec<u64>) = if kept_bits == 0 {
        (vec![0], vec![0])
    } else {
        let top = 1u64 << (kept_bits - 1);
        let all = if kept_bits == 64 { u64::MAX } else { (1u64 << kept_bits) - 1 };
        let mut kb = vec![top, top | 1, all, all - 1, top | (top >> 1), top | 2, all ^ 2];
        kb.sort_unstable();
        kb.dedup();
        let mut ka = kb.clone();
        // the top bit plus every single lower kept bit; all ones except one kept bit
        for j in 0..kept_bits.saturating_sub(1).min(63) {
            ka.push(top | (1u64 << j));
            ka.push((all ^ (1u64 << j)) | top);
        }
        ka.sort_unstable();
        ka.dedup();
        (kb, ka)
    };
    let mut out = Vec::new();
    let mut emit = |k: u64, d: u64| {
        let m = if shift == 64 { d } else { (k << shift) | d };
        out.push(m | (1u64 << 63));
    };
    // (basic kept x all dropped) + (all kept x basic dropped)
    for &k in &k_basic {
        for &d in &d_all {
            emit(k, d);
        }
    }
    for &k in &k_all {
        for &d in &d_basic {
            emit(k, d);
        }
    }
    out.sort_unstable();
    out.dedup();
    out
}


/// The part of the check that depends on the target's `usize` / limb width, small enough for an interpreter:
/// every mask helper for every width in all configurations, and the basic kept x basic dropped grid for every
/// subnormal shift (biased exponents -63..=2) plus a few normal and overflowing exponents.  Run by the
/// 32-bit stage (Miri, --target i686-unknown-linux-gnu).
pub fn check_width_dependent(stats: &mut Stats) -> Result<u64, Failure> {
    let mut n_eval = 0u64;
    for cfg in CFGS.iter() {
        for n in 0..=64u64 {
            let want_mask = if n == 64 { u64::MAX } else { (1u64 << n) - 1 };
            let want_half = if n == 0 { 0 } else { 1u64 << (n - 1) };
            for (which, want, name) in [(0u32, want_mask, "lower_n_mask"), (1, want_half, "lower_n_halfway")] {
                let got = catch(|| (cfg.masks)(which, n));
                n_eval += 1;
                if got != Ok(want) {
                    return Err(Failure::violation(
                        format!("config {}: {}({}) = {:?}, expected {:#x} (pointer width {})", cfg.name, name, n, got, want, usize::BITS),
                        format!("mask:{name}:{n}"),
                        json!({"kind": "mask", "config": cfg.name, "helper": name, "n": n, "expected": want, "observed": format!("{:?}", got)}),
                    ));
                }
            }
            if n < 64 {
                let got = catch(|| (cfg.masks)(2, n));
                n_eval += 1;
                if got != Ok(1u64 << n) {
                    return Err(Failure::violation(
                        format!("config {}: nth_bit({}) = {:?} (pointer width {})", cfg.name, n, got, usize::BITS),
                        format!("mask:nth_bit:{n}"),
                        json!({"kind": "mask", "config": cfg.name, "helper": "nth_bit", "n": n, "expected": 1u64 << n, "observed": format!("{:?}", got)}),
                    ));
                }
            }
        }
    }
    for fmt in [Fmt::F64, Fmt::F32] {
        let (_, hi) = exp_range(fmt);
        let mut exps: Vec<i32> = (-63..=2).collect();
        exps.extend([hi / 2, hi - 60, hi - 54, hi - 53, hi]);
        for exp in exps {
            // basic patterns only: top bit, all ones, around the half of the cut
            let p = fmt.mbits() as i64 + 1;
            let normal_shift = 64 - p;
            let shift = if -(exp as i64) >= normal_shift { (1 - exp as i64).min(64) } else { normal_shift } as u32;
            let mask = if shift == 64 { u64::MAX } else { (1u64 << shift) - 1 };
            let half = 1u64 << (shift - 1);
            let ds = [0, 1 & mask, half.wrapping_sub(1) & mask, half, (half + 1) & mask, mask];
            let kept_bits = 64 - shift;
            let ks: Vec<u64> = if kept_bits == 0 {
                vec![0]
            } else {
                let top = 1u64 << (kept_bits - 1);
                let all = if kept_bits == 64 { u64::MAX } else { (1u64 << kept_bits) - 1 };
                vec![top, top | 1, all]
            };
            for &k in &ks {
                for &d in &ds {
                    let m = (if shift == 64 { d } else { (k << shift) | d }) | (1u64 << 63);
                    for nearest in [true, false] {
                        for ci in [0usize, 1] {
                            check(fmt, m, exp, nearest, &CFGS[ci], stats)?;
                            n_eval += 1;
                        }
                    }
                }
            }
        }
    }
    Ok(n_eval)
}

pub fn run(ctx: &Ctx) -> i32 {
    let mut rep = Report::new(
        "rounding::round::<F,_> is called directly with the nearest-tie-even callback and with round_down, then packed \
         with extended_to_float, in all 8 configurations. Domain exactly as stated: significand in [2^63,2^64), biased \
         exponent in [-63,2100] (f64) / [-63,320] (f32). The full grid 'every exponent in range x structured \
         significands' is enumerated: for the cut position implied by the exponent (11 / 40 bits, or 1-exp for \
         subnormals), (7 basic kept-bit patterns {10..0, 10..01, all ones (carry), all ones-1, 110..0, ...} x all \
         dropped-bit patterns {0, 1, half-1, half, half+1, all ones, all ones-1, 3/4, every single bit, half + every \
         single bit, all ones minus every single bit, every low run of ones}) + (all kept-bit patterns incl. top + \
         every single bit and all ones minus every single bit x the 8 basic dropped patterns); plus 2^22 (quick) / 2^30 (thorough) seed-derived random \
         (significand, exponent) pairs; plus the mask helpers lower_n_mask / lower_n_halfway for every n in 0..=64 and \
         nth_bit for 0..=63. Oracle: exact integer arithmetic (u128) round-half-even / truncation of \
         significand*2^(exp-bias), incl. subnormals, carry into the next binade, subnormal->min normal, overflow->inf. \
         Every grid point is non-trivial (it sits on a rounding decision); distinct by (format, significand, exponent, mode). \
         32-bit stage: the mask helpers for every width and the basic grid for every subnormal shift are re-run by Miri \
         with --target i686-unknown-linux-gnu (usize = 32 bits), because width-dependent slips are invisible on the host.",
    );
    rep.assume("truncating variant above the largest finite value: both +inf (what the primitive documents) and MAX (the literal 'largest float not above') are accepted");
    rep.assume("exp = -64 (a 65-bit shift) is outside the stated domain and not generated");
    let mut distinct = 0u64;
    // masks, all widths
    let mut mask_fail: Option<Failure> = None;
    for cfg in CFGS.iter() {
        for n in 0..=64u64 {
            let want_mask = if n == 64 { u64::MAX } else { (1u64 << n) - 1 };
            let want_half = if n == 0 { 0 } else { 1u64 << (n - 1) };
            let checks = [(0u32, want_mask, "lower_n_mask"), (1, want_half, "lower_n_halfway")];
            for (which, want, name) in checks {
                let got = catch(|| (cfg.masks)(which, n));
                if got != Ok(want) && mask_fail.is_none() {
                    mask_fail = Some(Failure::violation(
                        format!("config {}: {}({}) = {:?}, expected {:#x}", cfg.name, name, n, got, want),
                        format!("mask:{name}:{n}"),
                        json!({"kind": "mask", "config": cfg.name, "helper": name, "n": n, "expected": want, "observed": format!("{:?}", got)}),
                    ));
                }
                distinct += 1;
            }
            if n < 64 {
                let got = catch(|| (cfg.masks)(2, n));
                if got != Ok(1u64 << n) && mask_fail.is_none() {
                    mask_fail = Some(Failure::violation(
                        format!("config {}: nth_bit({}) = {:?}", cfg.name, n, got),
                        format!("mask:nth_bit:{n}"),
                        json!({"kind": "mask", "config": cfg.name, "helper": "nth_bit", "n": n, "expected": 1u64 << n, "observed": format!("{:?}", got)}),
                    ));
                }
                distinct += 1;
            }
        }
    }
    rep.stats.evaluations += distinct;
    rep.stats.add("mask-helper-evaluations", distinct);
    if let Some(f) = mask_fail {
        rep.violations.push((None, f));
    }
    // the structured grid
    for fmt in [Fmt::F64, Fmt::F32] {
        let (lo, hi) = exp_range(fmt);
        let mut points: Vec<(u64, i32)> = Vec::new();
        for exp in lo..=hi {
            for m in structured(fmt, exp) {
                points.push((m, exp));
            }
        }
        let n = points.len() as u64 * 2;
        let r = run_sweep(n, ctx.threads, |i, stats| {
            let (m, exp) = points[(i / 2) as usize];
            let nearest = i % 2 == 0;
            for cfg in CFGS.iter() {
                check(fmt, m, exp, nearest, cfg, stats)?;
            }
            stats.sample(&format!("{} grid", fmt.name()), || json!({"mant": format!("{:#018x}", m), "exp": exp, "nearest": nearest}));
            Ok(())
        });
        distinct += r.stats.evaluations;
        rep.stats.add(&format!("grid-points-{}", fmt.name()), r.stats.evaluations);
        rep.absorb(r);
    }
    // random pairs
    let n = match ctx.tier {
        Tier::Quick => 1u64 << 22,
        Tier::Thorough => 1u64 << 30,
    };
    let r = run_sweep(n, ctx.threads, |i, stats| {
        let a = gen::mix(i ^ ctx.seed.wrapping_mul(0x9e37_79b9));
        let b = gen::mix(a);
        let fmt = if b & 1 == 0 { Fmt::F64 } else { Fmt::F32 };
        let (lo, hi) = exp_range(fmt);
        let exp = lo + ((b >> 8) % (hi - lo + 1) as u64) as i32;
        let mant = a | (1u64 << 63);
        let nearest = b & 2 == 0;
        check(fmt, mant, exp, nearest, &CFGS[((b >> 4) % 8) as usize], stats)?;
        stats.sample("random", || json!({"format": fmt.name(), "mant": format!("{:#018x}", mant), "exp": exp, "nearest": nearest}));
        Ok(())
    });
    distinct += r.stats.evaluations;
    rep.absorb(r);
    rep.extra.insert("distinct_nontrivial_override".into(), json!(distinct));
    rep.extra.insert("grid_exhaustive".into(), json!(true));
    for k in ["overflow-to-inf", "subnormal-or-zero-result", "result-min-normal"] {
        crate::runner::require_counter(&mut rep, k, 100);
    }
    finish(ctx, rep)
}

pub fn replay(v: &serde_json::Value) -> Result<bool, String> {
    let c = &v["case"];
    if c["kind"] == "mask" {
        return Err("mask findings: re-run ./run.sh C18 quick (the mask domain is enumerated completely)".into());
    }
    let fmt = match c["format"].as_str() {
        Some("f32") => Fmt::F32,
        Some("f64") => Fmt::F64,
        _ => return Err("replay: missing format".into()),
    };
    let mant = c["mant"].as_u64().ok_or("mant")?;
    let exp = c["exp"].as_i64().ok_or("exp")? as i32;
    let nearest = c["nearest"].as_bool().ok_or("nearest")?;
    let mut bad = false;
    for cfg in CFGS.iter() {
        let mut st = Stats::default();
        if let Err(f) = check(fmt, mant, exp, nearest, cfg, &mut st) {
            println!("replay: {}", f.message);
            bad = true;
        }
    }
    Ok(bad)
}
