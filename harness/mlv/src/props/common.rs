//! Shared checking code for the parse-level properties.

use crate::cfgs::{Cfg, CFGS};
use crate::gen::{self, Case};
use crate::oracle::{self, Fmt, Verdict};
use crate::runner::{catch, last_panic_location, Failure, Stats};
use serde_json::{json, Value};

pub fn case_detail(fmt: Fmt, c: &Case, cfg: &str, observed: Option<u64>, extra: Value) -> Value {
    let expected = oracle::expected_fast(fmt, &c.int, &c.frac, c.exp as i64);
    json!({
        "kind": "parse",
        "format": fmt.name(),
        "config": cfg,
        "integer": String::from_utf8_lossy(&c.int),
        "fraction": String::from_utf8_lossy(&c.frac),
        "exponent": c.exp,
        "family": c.family, "variant": c.variant, "layout": c.layout,
        "expected_bits": fmt.hex(expected),
        "observed_bits": observed.map(|b| fmt.hex(b)),
        "extra": extra,
    })
}

/// Key identifying a finding: property-independent signature of *what* fails.
pub fn finding_key(fmt: Fmt, cfg: &Cfg, c: &Case) -> String {
    let p = cfg.path(fmt, &c.int, &c.frac, c.exp);
    format!("{}:{}:{}", if cfg.compact { "compact" } else { "lemire" }, fmt.name(), p.label())
}

/// Parse `c` in every configuration in `cfgs` (under catch_unwind) and judge
/// each distinct result with the oracle.  Also cross-checks the generator's
/// by-construction expectation against the oracle (a disagreement there is a
/// harness error, never a violation).
pub fn check_rounding(fmt: Fmt, c: &Case, cfgs: &[&'static Cfg]) -> Result<u64, Failure> {
    let mut judged: Vec<(u64, Verdict)> = Vec::with_capacity(2);
    let mut first_bits = 0;
    for (i, cfg) in cfgs.iter().enumerate() {
        let r = catch(|| cfg.parse(fmt, &c.int, &c.frac, c.exp));
        let bits = match r {
            Ok(b) => b,
            Err(msg) => {
                return Err(Failure::violation(
                    format!("panic in config {} parsing {} as {}: {} at {}", cfg.name, gen::abbreviate(&c.int), fmt.name(), msg, last_panic_location()),
                    format!("panic:{}", finding_key(fmt, cfg, c)),
                    case_detail(fmt, c, cfg.name, None, json!({"panic": msg, "location": last_panic_location()})),
                ));
            }
        };
        if i == 0 {
            first_bits = bits;
        }
        let v = match judged.iter().find(|(b, _)| *b == bits) {
            Some((_, v)) => *v,
            None => {
                let v = oracle::judge(fmt, bits, &c.int, &c.frac, c.exp as i64);
                judged.push((bits, v));
                v
            }
        };
        if v != Verdict::Correct {
            // before blaming the code, make sure generator and oracle agree
            if let Some(e) = c.expect {
                if oracle::judge(fmt, e, &c.int, &c.frac, c.exp as i64) != Verdict::Correct {
                    return Err(Failure::harness(
                        format!("generator expectation {} disagrees with the oracle", fmt.hex(e)),
                        case_detail(fmt, c, cfg.name, Some(bits), json!({})),
                    ));
                }
            }
            return Err(Failure::violation(
                format!(
                    "config {} returned {} for {}.{}e{} as {}: {:?} (expected {})",
                    cfg.name,
                    fmt.hex(bits),
                    gen::abbreviate(&c.int),
                    gen::abbreviate(&c.frac),
                    c.exp,
                    fmt.name(),
                    v,
                    fmt.hex(oracle::expected_fast(fmt, &c.int, &c.frac, c.exp as i64))
                ),
                format!("misround:{}", finding_key(fmt, cfg, c)),
                case_detail(fmt, c, cfg.name, Some(bits), json!({"verdict": format!("{:?}", v)})),
            ));
        }
        if let Some(e) = c.expect {
            if e != bits {
                // oracle says `bits` is correct, generator expected something else
                return Err(Failure::harness(
                    format!("generator expectation {} differs from oracle-approved result {}", fmt.hex(e), fmt.hex(bits)),
                    case_detail(fmt, c, cfg.name, Some(bits), json!({})),
                ));
            }
        }
    }
    Ok(first_bits)
}

pub fn all_cfgs() -> Vec<&'static Cfg> {
    CFGS.iter().collect()
}

/// Result classes that make a case non-trivial on their own.
pub fn result_class(fmt: Fmt, bits: u64, c: &Case) -> Option<&'static str> {
    if bits == fmt.inf_bits() {
        Some("result-inf")
    } else if bits == fmt.max_finite_bits() {
        Some("result-max")
    } else if fmt.is_subnormal(bits) {
        Some("result-subnormal")
    } else if bits == 0 && c.int.iter().chain(c.frac.iter()).any(|&b| b != b'0') {
        Some("result-zero-by-underflow")
    } else {
        None
    }
}

/// Record class / path statistics and decide non-triviality for the rounding
/// properties.  Returns true if the case is non-trivial.
pub fn account(fmt: Fmt, c: &Case, bits: u64, stats: &mut Stats, boundary_families: bool) -> bool {
    let class = format!("{} / {}", c.family, c.variant);
    stats.class(&class);
    stats.count(&format!("layout:{}", c.layout));
    let pd = crate::cfgs::default_cfg().path(fmt, &c.int, &c.frac, c.exp);
    let pc = crate::cfgs::compact_cfg().path(fmt, &c.int, &c.frac, c.exp);
    stats.count(&format!("path[default]:{}", pd.label()));
    stats.count(&format!("path[compact]:{}", pc.label()));
    let mut nt = false;
    if pd.slow || pc.slow {
        nt = true;
    }
    if pd.many_digits {
        stats.count("many_digits");
        nt = true;
    }
    if pd.beyond_max_digits || pc.beyond_max_digits {
        stats.count("beyond_max_digits");
    }
    if let Some(rc) = result_class(fmt, bits, c) {
        stats.count(rc);
        nt = true;
    }
    if boundary_families {
        let v = gen::value_of(c);
        let close = oracle::boundary_closeness(fmt, bits, &v);
        let need = match fmt {
            Fmt::F32 => 8,
            Fmt::F64 => 16,
        };
        if close >= need {
            stats.count("near-boundary");
            nt = true;
        }
        if close > 1000 {
            stats.count("exact-tie");
        }
    }
    if nt {
        stats.nontrivial.push(c.fingerprint());
        stats.sample(&class, || {
            let mut d = c.describe();
            d["format"] = json!(fmt.name());
            d["result_bits"] = json!(fmt.hex(bits));
            d["path_default"] = json!(pd.label());
            d["path_compact"] = json!(pc.label());
            d
        });
    }
    nt
}

/// Re-execute a concrete parse case from a replay file.  Returns Ok(true) if
/// the violation reproduces.
pub fn replay_parse(v: &Value) -> Result<bool, String> {
    let case = &v["case"];
    let fmt = match case["format"].as_str() {
        Some("f32") => Fmt::F32,
        Some("f64") => Fmt::F64,
        _ => return Err("replay: missing format".into()),
    };
    let int = case["integer"].as_str().ok_or("replay: integer")?.as_bytes().to_vec();
    let frac = case["fraction"].as_str().ok_or("replay: fraction")?.as_bytes().to_vec();
    let exp = case["exponent"].as_i64().ok_or("replay: exponent")? as i32;
    let cfgname = case["config"].as_str().unwrap_or("");
    let mut bad = false;
    for cfg in CFGS.iter() {
        if !cfgname.is_empty() && cfgname != "*" && cfg.name != cfgname {
            continue;
        }
        match catch(|| cfg.parse(fmt, &int, &frac, exp)) {
            Err(msg) => {
                println!("replay: config {} panicked: {}", cfg.name, msg);
                bad = true;
            }
            Ok(bits) => {
                let verdict = oracle::judge(fmt, bits, &int, &frac, exp as i64);
                println!(
                    "replay: config {} -> {} verdict {:?} (expected {})",
                    cfg.name,
                    fmt.hex(bits),
                    verdict,
                    fmt.hex(oracle::expected(fmt, &int, &frac, exp as i64))
                );
                if verdict != Verdict::Correct {
                    bad = true;
                }
            }
        }
    }
    Ok(bad)
}

/// Parse in all configurations; a panic anywhere is a violation.
pub fn parse_all(fmt: Fmt, int: &[u8], frac: &[u8], exp: i32, what: &str) -> Result<[u64; 8], Failure> {
    let mut out = [0u64; 8];
    for (i, cfg) in CFGS.iter().enumerate() {
        match catch(|| cfg.parse(fmt, int, frac, exp)) {
            Ok(b) => out[i] = b,
            Err(msg) => {
                return Err(Failure::violation(
                    format!("{what}: panic in config {} ({} at {})", cfg.name, msg, last_panic_location()),
                    format!("panic:{}:{}", cfg.name, fmt.name()),
                    json!({"kind": "parse", "format": fmt.name(), "config": cfg.name,
                           "integer": String::from_utf8_lossy(int), "fraction": String::from_utf8_lossy(frac), "exponent": exp,
                           "extra": {"panic": msg, "location": last_panic_location()}}),
                ));
            }
        }
    }
    Ok(out)
}

pub fn raw_detail(fmt: Fmt, cfg: &str, int: &[u8], frac: &[u8], exp: i32, extra: Value) -> Value {
    json!({"kind": "parse", "format": fmt.name(), "config": cfg,
           "integer": String::from_utf8_lossy(int), "fraction": String::from_utf8_lossy(frac), "exponent": exp, "extra": extra})
}
