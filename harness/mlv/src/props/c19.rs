//! C19: the shipped string front-end plus the library parses decimal literals correctly.

use crate::fronts::{Front, FRONTS};
use crate::gen::{self, pick_w, Limits, Recipe};
use crate::oracle::{self, Fmt, Verdict};
use crate::runner::{catch, finish, last_panic_location, require_counter, run_recipes, Ctx, Failure, Report, Stats};
use serde_json::{json, Value};

#[derive(Debug, Clone, PartialEq, Eq)]
pub enum Special {
    Nan,
    Inf,
}

#[derive(Debug, Clone)]
pub struct Scan {
    pub negative: bool,
    pub special: Option<Special>,
    pub int: Vec<u8>,
    pub frac: Vec<u8>,
    /// true exponent, saturated far beyond anything that matters (|e| <= 10^30)
    pub exp: i128,
    pub consumed: usize,
}

fn starts_with_ci(b: &[u8], lit: &[u8]) -> bool {
    b.len() >= lit.len() && b.iter().zip(lit.iter()).all(|(x, y)| x.to_ascii_lowercase() == y.to_ascii_lowercase())
}

/// Reference scanner for the grammar in the property statement:
/// [+-]? (nan|infinity|inf)?  |  [+-]? D* (. D*)? ([eE] [+-]? D*)?   - each part optional, greedy.
pub fn scan(input: &[u8], specials: bool) -> Scan {
    let mut i = 0;
    let mut negative = false;
    if i < input.len() && (input[i] == b'+' || input[i] == b'-') {
        negative = input[i] == b'-';
        i += 1;
    }
    if specials {
        let rest = &input[i..];
        let hit = if starts_with_ci(rest, b"nan") {
            Some((Special::Nan, 3))
        } else if starts_with_ci(rest, b"infinity") {
            Some((Special::Inf, 8))
        } else if starts_with_ci(rest, b"inf") {
            Some((Special::Inf, 3))
        } else {
            None
        };
        if let Some((s, n)) = hit {
            return Scan { negative, special: Some(s), int: vec![], frac: vec![], exp: 0, consumed: i + n };
        }
    }
    let digits = |i: &mut usize| -> Vec<u8> {
        let st = *i;
        while *i < input.len() && input[*i].is_ascii_digit() {
            *i += 1;
        }
        input[st..*i].to_vec()
    };
    let int = digits(&mut i);
    let mut frac = Vec::new();
    if i < input.len() && input[i] == b'.' {
        i += 1;
        frac = digits(&mut i);
    }
    let mut exp: i128 = 0;
    if i < input.len() && (input[i] == b'e' || input[i] == b'E') {
        i += 1;
        let mut eneg = false;
        if i < input.len() && (input[i] == b'+' || input[i] == b'-') {
            eneg = input[i] == b'-';
            i += 1;
        }
        let ed = digits(&mut i);
        let mut v: i128 = 0;
        for &c in &ed {
            v = (v * 10 + (c - b'0') as i128).min(10i128.pow(30));
        }
        exp = if eneg { -v } else { v };
    }
    Scan { negative, special: None, int, frac, exp, consumed: i }
}

fn fail(front: &Front, fmt: Fmt, input: &[u8], what: String, key: &str) -> Failure {
    Failure::violation(
        format!("{} ({}): input {:?}: {}", front.name, fmt.name(), String::from_utf8_lossy(&input[..input.len().min(80)]), what),
        format!("frontend:{}:{}", front.source, key),
        json!({"kind": "frontend", "front": front.name, "format": fmt.name(), "input_bytes": input, "input_lossy": String::from_utf8_lossy(input), "what": what}),
    )
}

/// Check one input against one front-end copy and format.  Returns the result bits.
pub fn check_front(front: &Front, fmt: Fmt, input: &[u8], stats: &mut Stats) -> Result<u64, Failure> {
    let r = catch(|| match fmt {
        Fmt::F32 => {
            let (f, rest) = (front.f32)(input);
            (f.to_bits() as u64, rest.as_ptr() as usize, rest.len())
        }
        Fmt::F64 => {
            let (f, rest) = (front.f64)(input);
            (f.to_bits(), rest.as_ptr() as usize, rest.len())
        }
    });
    let (bits, rest_ptr, rest_len) = match r {
        Ok(x) => x,
        Err(msg) => return Err(fail(front, fmt, input, format!("panicked: {msg} at {}", last_panic_location()), "panic")),
    };
    let s = scan(input, front.specials);
    let nothing = front.specials && s.consumed == 0;
    // (1) unconsumed suffix is exactly input[consumed..]
    let want_rest = &input[s.consumed..];
    if rest_len != want_rest.len() || (rest_len > 0 && rest_ptr != want_rest.as_ptr() as usize) || (rest_len == 0 && want_rest.is_empty() && false) {
        return Err(fail(front, fmt, input, format!("returned a suffix of length {} but the longest literal prefix has length {} (suffix should have length {})", rest_len, s.consumed, want_rest.len()), "suffix"));
    }
    // (2) value and sign
    let sign = fmt.sign_bit();
    let mag = bits & !sign;
    let neg = bits & sign != 0;
    match s.special {
        Some(Special::Nan) => {
            if !fmt.is_nan(bits) || neg != s.negative {
                return Err(fail(front, fmt, input, format!("nan literal gave {}", fmt.hex(bits)), "nan"));
            }
            stats.count("special-literal");
        }
        Some(Special::Inf) => {
            if mag != fmt.inf_bits() || neg != s.negative {
                return Err(fail(front, fmt, input, format!("inf literal gave {}", fmt.hex(bits)), "inf"));
            }
            stats.count("special-literal");
        }
        None => {
            if fmt.is_nan(bits) {
                return Err(fail(front, fmt, input, format!("NaN {} from a non-nan literal", fmt.hex(bits)), "value"));
            }
            let want_neg = if nothing { false } else { s.negative };
            if neg != want_neg {
                return Err(fail(front, fmt, input, format!("sign bit {} but the literal's sign is {}", neg, if want_neg { "-" } else { "+" }), "sign"));
            }
            // true exponent clamps harmlessly: beyond +-2^40 the value is 0 or inf for any digit count here
            let e = s.exp.clamp(-(1i128 << 40), 1i128 << 40) as i64;
            let v = oracle::judge(fmt, mag, &s.int, &s.frac, e);
            if v != Verdict::Correct {
                return Err(fail(
                    front,
                    fmt,
                    input,
                    format!("value {} is not the correctly rounded literal ({:?}; expected {})", fmt.hex(mag), v, fmt.hex(oracle::expected_fast(fmt, &s.int, &s.frac, e))),
                    "value",
                ));
            }
        }
    }
    Ok(bits)
}

// ---------------------------------------------------------------------------
// G-J generator

fn digits_part(r: &Recipe, salt: u64, lim: Limits) -> Vec<u8> {
    let s = gen::mix(r.a ^ salt);
    let len = match s % 8 {
        0 => 0,
        1 => 1,
        2 => 2 + (s >> 8) as usize % 6,
        3 => 15 + (s >> 8) as usize % 8,
        4 => 30 + (s >> 8) as usize % 100,
        5 => 760 + (s >> 8) as usize % 20,
        6 => (s >> 8) as usize % lim.long.max(1),
        _ => 3,
    };
    let mut d: Vec<u8> = (0..len).map(|i| b'0' + (gen::mix(s ^ (i as u64 + 3) * 0x1234_5677) % 10) as u8).collect();
    // leading / trailing zeros that the front-end must trim
    match (s >> 40) % 5 {
        0 => {
            let z = 1 + (s >> 44) as usize % 5;
            let mut v = vec![b'0'; z];
            v.extend(d);
            d = v;
        }
        1 => d.extend(std::iter::repeat(b'0').take(1 + (s >> 44) as usize % 5)),
        2 => {
            let z = 20 + (s >> 44) as usize % 400;
            let mut v = vec![b'0'; z];
            v.extend(d);
            d = v;
        }
        _ => {}
    }
    d
}

pub fn g_j(r: &Recipe, lim: Limits) -> (Vec<u8>, &'static str) {
    let fmt = if r.sel[7] & 1 == 0 { Fmt::F64 } else { Fmt::F32 };
    let which = pick_w(r.sel[0], &[40, 20, 12, 10, 10, 8, 1]);
    let mut out: Vec<u8> = Vec::new();
    let class: &'static str;
    match which {
        0 | 1 => {
            class = if which == 0 { "grammar" } else { "grammar-from-boundary-case" };
            match r.k[0] % 4 {
                0 => out.push(b'+'),
                1 => out.push(b'-'),
                _ => {}
            }
            let mut exp_from_case: Option<i32> = None;
            if which == 0 {
                if r.k[1] % 8 != 0 {
                    out.extend(digits_part(r, 1, lim));
                }
                if r.k[1] % 3 != 0 {
                    out.push(b'.');
                    if r.k[2] % 7 != 0 {
                        out.extend(digits_part(r, 2, lim));
                    }
                }
            } else {
                // decorrelate the family choice from this function's own class selector (both read sel[0])
                let mut rm = r.clone();
                rm.sel[0] = gen::mix(r.a ^ r.b.rotate_left(17)) as u16;
                let c = gen::mixed(fmt, &rm, lim);
                // optional leading zeros on the integer / trailing zeros on the fraction
                if r.k[1] % 3 == 0 {
                    out.extend(std::iter::repeat(b'0').take(1 + (r.k[1] as usize >> 4) % 4));
                }
                out.extend(&c.int);
                if !c.frac.is_empty() || r.k[2] % 2 == 0 {
                    out.push(b'.');
                    out.extend(&c.frac);
                    if r.k[2] % 3 == 0 {
                        out.extend(std::iter::repeat(b'0').take(1 + (r.k[2] as usize >> 4) % 4));
                    }
                }
                exp_from_case = Some(c.exp);
            }
            // exponent part
            let emode = if exp_from_case.is_some() { 0 } else { 1 + r.k[3] % 8 };
            match emode {
                0 => {
                    let e = exp_from_case.unwrap();
                    out.push(if r.b & 1 == 0 { b'e' } else { b'E' });
                    if e >= 0 && r.b & 2 == 0 {
                        out.push(b'+');
                    }
                    out.extend(e.to_string().bytes());
                }
                1 | 2 => {}
                3 => out.push(b'e'), // marker only
                4 => out.extend(b"E-"), // marker and sign only
                5 | 6 => {
                    out.push(b'e');
                    match r.b % 3 {
                        0 => out.push(b'-'),
                        1 => out.push(b'+'),
                        _ => {}
                    }
                    out.extend(((gen::mix(r.b) % 700) as i64 - 20).abs().to_string().bytes());
                }
                7 => {
                    // exponent digit strings beyond i32 / i64
                    out.push(b'E');
                    if r.b & 1 == 0 {
                        out.push(b'-');
                    }
                    let n = 9 + (r.b >> 8) as usize % 17;
                    let lead_zeros = (r.b >> 20) as usize % 3;
                    out.extend(std::iter::repeat(b'0').take(lead_zeros));
                    for i in 0..n {
                        out.push(b'0' + (gen::mix(r.b ^ i as u64) % 10) as u8);
                    }
                }
                _ => {
                    // i32 edge values
                    let edges: [i64; 8] = [2147483647, 2147483648, -2147483648, -2147483649, 2147483646, 4294967296, -4294967296, 99999999999];
                    out.push(b'e');
                    out.extend(edges[(r.b % 8) as usize].to_string().bytes());
                }
            }
            // suffix
            match (r.b >> 32) % 6 {
                0 | 1 => {}
                2 => out.extend(b" narnia"),
                3 => out.extend(b".5"),
                4 => out.extend(b"e9"),
                _ => out.extend([0x00, 0xff, 0xc3, 0xa9, b'1']),
            }
        }
        2 => {
            class = "special-literal";
            match r.k[0] % 3 {
                0 => out.push(b'+'),
                1 => out.push(b'-'),
                _ => {}
            }
            let lits: [&[u8]; 6] = [b"nan", b"inf", b"infinity", b"infinit", b"in", b"na"];
            let l = lits[(r.k[1] % 6) as usize];
            for (i, &c) in l.iter().enumerate() {
                out.push(if (r.b >> i) & 1 == 1 { c.to_ascii_uppercase() } else { c });
            }
            match r.k[2] % 4 {
                0 => {}
                1 => out.extend(b"ity"),
                2 => out.extend(b"1.5"),
                _ => out.extend(b" x"),
            }
        }
        3 => {
            class = "lone-sign-dot-marker";
            let pieces: [&[u8]; 12] = [b"", b"+", b"-", b".", b"e", b"E5", b"-.", b"+e", b".e1", b"-e-", b"..", b"+-1"];
            out.extend(pieces[(r.k[0] % 12) as usize]);
            if r.k[1] % 3 == 0 {
                out.extend(b"abc");
            }
        }
        4 => {
            class = "mutated-grammar";
            let mut r2 = r.clone();
            r2.sel[0] = 0;
            let (base, _) = g_j(&r2, lim);
            out = base;
            let n = 1 + (r.k[3] % 3) as usize;
            for j in 0..n {
                let s = gen::mix(r.b ^ j as u64 ^ 0x99);
                if out.is_empty() {
                    out.push((s >> 8) as u8);
                    continue;
                }
                let pos = (s as usize) % out.len();
                match (s >> 32) % 4 {
                    0 => out[pos] = (s >> 40) as u8,
                    1 => out.insert(pos, [b'.', b'e', b'-', b'+', b'0', b'9', b'/', b':'][(s >> 40) as usize % 8]),
                    2 => {
                        out.remove(pos);
                    }
                    _ => out.truncate(pos),
                }
            }
        }
        6 => {
            // long runs of zeros compensated by a large explicit exponent: the value is an ordinary number,
            // the exponent magnitude is not (1e3, 1e4, around 2^16, 1e5)
            class = "compensated-large-exponent";
            let n = match r.k[0] % 8 {
                0 => 1000 + (r.k[1] % 100) as usize,
                1 => 10_000 + (r.k[1] % 100) as usize,
                2..=5 => 65_530 + (r.k[1] % 20) as usize,
                6 => 70_000 + (r.k[1] % 1000) as usize,
                _ => 100_000 + (r.k[1] % 100) as usize,
            };
            let lead: Vec<u8> = (0..1 + r.k[2] % 18).map(|i| b'1' + (gen::mix(r.a ^ i as u64) % 9) as u8).collect();
            let slack = (r.b % 41) as i64 - 20;
            if r.k[3] % 2 == 0 {
                // 0.000...0ddd e+(n+slack)
                out.extend(b"0.");
                out.extend(std::iter::repeat(b'0').take(n));
                out.extend(&lead);
                out.push(b'e');
                out.extend((n as i64 + slack).to_string().bytes());
            } else {
                // ddd000...0 e-(n+slack)
                out.extend(&lead);
                out.extend(std::iter::repeat(b'0').take(n));
                out.push(b'E');
                out.extend((-(n as i64) - slack).to_string().bytes());
            }
            if r.k[3] % 3 == 0 {
                out.extend(b" tail");
            }
        }
        _ => {
            class = "arbitrary-bytes";
            let n = (r.k[0] % 64) as usize;
            for i in 0..n {
                let s = gen::mix(r.a ^ i as u64);
                out.push(match s % 4 {
                    0 => (s >> 8) as u8,
                    1 => b'0' + ((s >> 8) % 10) as u8,
                    _ => [b'.', b'e', b'E', b'-', b'+', b'n', b'a', b'i', b'f', b'N', b'I', b' '][(s >> 8) as usize % 12],
                });
            }
        }
    }
    (out, class)
}

pub fn check_recipe(r: &Recipe, lim: Limits, stats: &mut Stats) -> Result<(), Failure> {
    let (input, class) = g_j(r, lim);
    stats.class(class);
    let mut results: Vec<(u64, u64)> = Vec::with_capacity(FRONTS.len());
    for front in FRONTS.iter() {
        let b32 = check_front(front, Fmt::F32, &input, stats)?;
        let b64 = check_front(front, Fmt::F64, &input, stats)?;
        results.push((b32, b64));
    }
    // (4) the copies agree with each other wherever their grammars coincide
    let s_plain = scan(&input, false);
    let s_spec = scan(&input, true);
    let coincide = s_spec.special.is_none() && s_spec.consumed > 0 && s_plain.consumed == s_spec.consumed;
    if coincide {
        for (i, f) in FRONTS.iter().enumerate() {
            if results[i] != results[0] {
                return Err(fail(f, Fmt::F64, &input, format!("copies disagree: {} gives {:x?} but {} gives {:x?}", FRONTS[0].name, results[0], f.name, results[i]), "copies-disagree"));
            }
        }
        stats.count("copies-compared");
    }
    // non-triviality
    let s = &s_spec;
    let lead = s.int.first() == Some(&b'0');
    let trail = s.frac.last() == Some(&b'0');
    let exp_digits = s.exp.abs() >= 10_000_000_000;
    let mut nt = false;
    if s.consumed < input.len() {
        stats.count("non-empty-suffix");
        nt = true;
    }
    if lead || trail {
        stats.count("zeros-to-trim");
        nt = true;
    }
    if exp_digits {
        stats.count("exponent-beyond-10-digits");
        nt = true;
    }
    if s.exp.abs() >= 65536 && s.exp.abs() < 1_000_000 {
        stats.count("explicit-exponent>=65536");
    }
    if s.exp.abs() > i32::MAX as i128 {
        stats.count("exponent-beyond-i32");
    }
    if s.special.is_some() || class == "lone-sign-dot-marker" || class == "special-literal" {
        nt = true;
    }
    if s.int.len() + s.frac.len() > 19 {
        stats.count("more-than-19-digits");
        nt = true;
    }
    if nt {
        let mut h = 0xcbf2_9ce4_8422_2325u64;
        for &b in &input {
            h = (h ^ b as u64).wrapping_mul(0x1000_0000_01b3);
        }
        stats.nontrivial.push(gen::mix(h));
        stats.sample(class, || json!({"input": String::from_utf8_lossy(&input[..input.len().min(120)]), "length": input.len(), "consumed_by_reference_scanner": s.consumed, "f64_bits": format!("{:#018x}", results[0].1)}));
    }
    Ok(())
}

// ---------------------------------------------------------------------------
// Deep inputs: stack use must not grow with the input.  Each spec is checked on a thread with std's default
// 2 MiB stack; the process running this is a child of the supervisor, so that a stack overflow (SIGSEGV /
// SIGABRT) is attributed to one spec of one build.

pub const DEEP_KINDS: [&str; 9] = [
    "leading integer zeros, then 1",
    "0. then fraction zeros, then 1",
    "integer of nines",
    "1e then exponent leading zeros, then 5",
    "1. then trailing fraction zeros",
    "0. then a fraction of threes",
    "1e then an exponent of nines",
    "-0 then leading zeros, a point, zeros, digits, e-, zeros, 7",
    "a fixed list of short signed literals (specials, zeros, underflow, overflow) - build-profile dependence",
];

pub fn deep_input(kind: usize, n: usize) -> Vec<u8> {
    let rep = |c: u8, k: usize| std::iter::repeat(c).take(k);
    let mut v: Vec<u8> = Vec::with_capacity(n + 64);
    match kind {
        0 => {
            v.extend(rep(b'0', n));
            v.push(b'1');
        }
        1 => {
            v.extend_from_slice(b"0.");
            v.extend(rep(b'0', n));
            v.push(b'1');
        }
        2 => v.extend(rep(b'9', n)),
        3 => {
            v.extend_from_slice(b"1e");
            v.extend(rep(b'0', n));
            v.push(b'5');
        }
        4 => {
            v.extend_from_slice(b"1.");
            v.extend(rep(b'0', n));
        }
        5 => {
            v.extend_from_slice(b"0.");
            v.extend(rep(b'3', n));
        }
        6 => {
            v.extend_from_slice(b"1e");
            v.extend(rep(b'9', n));
        }
        _ => {
            v.extend_from_slice(b"-0");
            v.extend(rep(b'0', n / 3));
            v.push(b'.');
            v.extend(rep(b'0', n / 3));
            v.extend_from_slice(b"12345e-");
            v.extend(rep(b'0', n / 3));
            v.push(b'7');
        }
    }
    v
}

/// Run every front-end copy on one deep input, on a 2 MiB thread.  Ok(()) / Err(message).
pub fn deep_check(kind: usize, n: usize) -> Result<(), String> {
    if kind == 8 {
        // not deep at all: short literals whose sign / special handling must not depend on the build profile
        // (this check runs in the release, dbgchk and unoptimised dbg0 builds)
        let lits: [&[u8]; 24] = [
            b"-nan", b"+nan", b"nan", b"-NaN", b"-inf", b"+inf", b"-infinity", b"-INFINITY", b"-0", b"-0.0", b"-0e5", b"-.0", b"-1e-400", b"-1e-99999999999", b"-4.9e-324", b"-1e400",
            b"-1e99999999999", b"-1.5", b"+1.5", b"-nanx", b"-infx", b"- 1", b"-", b"-e5",
        ];
        let mut st = Stats::default();
        for front in FRONTS.iter() {
            for fmt in [Fmt::F32, Fmt::F64] {
                for l in lits.iter() {
                    check_front(front, fmt, l, &mut st).map_err(|f| f.message)?;
                }
            }
        }
        return Ok(());
    }
    let input = deep_input(kind, n);
    let h = std::thread::Builder::new()
        .stack_size(2 << 20)
        .spawn(move || -> Result<(), String> {
            let mut st = Stats::default();
            for front in FRONTS.iter() {
                for fmt in [Fmt::F32, Fmt::F64] {
                    check_front(front, fmt, &input, &mut st).map_err(|f| f.message)?;
                }
            }
            Ok(())
        })
        .map_err(|e| e.to_string())?;
    match h.join() {
        Ok(r) => r,
        Err(_) => Err("the deep-input thread panicked".into()),
    }
}

pub fn run(ctx: &Ctx) -> i32 {
    let lim: Limits = ctx.tier.pick(Limits { long: 1_500, huge: 20_000 }, Limits { long: 10_000, huge: 100_000 });
    let mut rep = Report::new(
        "All seven front-end copies in the repository (examples/simple.rs, fuzz/fuzz_targets/parse.rs, \
         tests/integration_tests.rs, etc/correctness/test-parse-golang/main.rs whole; the front-end functions of \
         etc/correctness/{rng-tests,test-parse-random}/_common.rs and test-parse-unittests/main.rs sliced out textually) \
         are extracted from the repository sources at build time and compiled against the shim configurations (11 \
         callable copies). Inputs (G-J): grammar \
         [+-]? D* (. D*)? ([eE] [+-]? D*)? with every part optional, digit strings from the boundary generators \
         (midpoints, closest approaches, long tails) or random, leading/trailing zeros, exponent digit strings of \
         0..25 digits incl. the i32/i64 edges, suffixes (text, second '.'/'e', non-ASCII); nan/inf/infinity and \
         proper prefixes in random case; 1-3 byte-level mutations of these; lone signs/dots/markers; arbitrary bytes. \
         Oracle: a reference scanner for the stated grammar gives the consumed length, sign, digit strings and the \
         exponent as an unbounded integer; checked: (1) the returned suffix is exactly input[consumed..] (pointer and \
         length), (2) the value is the correctly rounded literal by the exact oracle with the true exponent, sign bit \
         as scanned (incl. -0.0, sign-only, and nothing-consumed -> +0.0), NaN only for nan literals, (3) no panic \
         (release and debug-assertion builds), (4) all copies agree wherever their grammars coincide. Non-trivial: \
         non-empty suffix, zeros to trim, exponent beyond 10 digits, special literal, lone sign/dot/marker, or more \
         than 19 digits; distinct by input bytes.",
    );
    rep.assume("for the three correctness-tool copies that need uncached crates only the front-end functions (parse_sign .. parse_float) are compiled and executed, not the tools' drivers");
    let cases = ctx.cases(500_000, 30_000_000);
    let r = run_recipes(ctx.seed, cases, ctx.threads, 19, |r, stats| check_recipe(r, lim, stats));
    rep.absorb(r);
    rep.extra.insert("front_end_copies".into(), json!(FRONTS.iter().map(|f| f.name).collect::<Vec<_>>()));
    for k in ["non-empty-suffix", "zeros-to-trim", "exponent-beyond-10-digits", "special-literal", "copies-compared", "more-than-19-digits", "explicit-exponent>=65536"] {
        require_counter(&mut rep, k, 1000);
    }
    finish(ctx, rep)
}

pub fn replay(v: &Value) -> Result<bool, String> {
    let bytes: Vec<u8> = v["case"]["input_bytes"].as_array().ok_or("input_bytes")?.iter().map(|x| x.as_u64().unwrap_or(0) as u8).collect();
    let mut bad = false;
    let mut st = Stats::default();
    for front in FRONTS.iter() {
        for fmt in [Fmt::F32, Fmt::F64] {
            match check_front(front, fmt, &bytes, &mut st) {
                Ok(b) => println!("replay: {} {} -> {}", front.name, fmt.name(), fmt.hex(b)),
                Err(f) => {
                    println!("replay: {}", f.message);
                    bad = true;
                }
            }
        }
    }
    Ok(bad)
}
