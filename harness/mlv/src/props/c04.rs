//! C04: valid input never panics, in release and debug-assertion builds.
//! (This module runs in whichever binary it is compiled into; the supervisor
//! runs both the `release` and the `dbgchk` build.)

use super::common::raw_detail;
use crate::cfgs::CFGS;
use crate::gen::{self, pick_w, Case, Limits, Recipe};
use crate::oracle::Fmt;
use crate::runner::{catch, finish, last_panic_location, require_counter, run_recipes, run_sweep, Ctx, Failure, Report, Stats, Tier};
use serde_json::json;

pub const BUILD: &str = if cfg!(debug_assertions) { "dbgchk (debug assertions + overflow checks + UB-precondition checks, target-cpu=native)" } else { "release" };

fn check_case(c: &Case, stats: &mut Stats) -> Result<(), Failure> {
    for fmt in [Fmt::F64, Fmt::F32] {
        for cfg in CFGS.iter() {
            match catch(|| cfg.parse(fmt, &c.int, &c.frac, c.exp)) {
                Ok(bits) => {
                    if bits > fmt.inf_bits() {
                        return Err(Failure::violation(
                            format!("config {} returned NaN/negative {} for valid input", cfg.name, fmt.hex(bits)),
                            format!("nan-or-negative:{}", cfg.name),
                            raw_detail(fmt, cfg.name, &c.int, &c.frac, c.exp, json!({"observed": fmt.hex(bits), "build": BUILD})),
                        ));
                    }
                }
                Err(msg) => {
                    let loc = last_panic_location();
                    return Err(Failure::violation(
                        format!(
                            "[{}] config {} panicked on valid input {}.{}e{} as {}: {} at {}",
                            BUILD, cfg.name, gen::abbreviate(&c.int), gen::abbreviate(&c.frac), c.exp, fmt.name(), msg, loc
                        ),
                        format!("panic:{}:{}", if cfg.compact { "compact" } else { "lemire" }, loc.rsplit('/').next().unwrap_or("")),
                        raw_detail(fmt, cfg.name, &c.int, &c.frac, c.exp, json!({"panic": msg, "location": loc, "build": BUILD})),
                    ));
                }
            }
        }
    }
    let n = c.sig_len();
    let pd = CFGS[0].path(Fmt::F64, &c.int, &c.frac, c.exp);
    let pc = CFGS[1].path(Fmt::F64, &c.int, &c.frac, c.exp);
    let mut nt = false;
    if pd.slow || pc.slow {
        stats.count("big-integer-path(f64)");
        nt = true;
    }
    if n >= 770 {
        stats.count("length>=770");
        nt = true;
    }
    if n >= 100_000 {
        stats.count("length>=1e5");
    }
    if (c.exp as i64).abs() >= 100_000 {
        stats.count("abs-exponent>=1e5");
        nt = true;
    }
    if c.exp == i32::MIN || c.exp == i32::MAX {
        stats.count("exponent-i32-extreme");
    }
    if nt {
        stats.nontrivial.push(c.fingerprint());
        stats.sample(&format!("{} / {}", c.family, c.variant), || c.describe());
    }
    Ok(())
}

/// Big-integer size maximisers: >= 770 significant digits at decimal magnitudes
/// -324..-300 and 290..309 (769 digits x 5^1093 is the design maximum).
fn big_bigint(r: &Recipe) -> Case {
    let n = 765 + (r.k[0] % 12) as usize + if r.k[1] % 5 == 0 { (r.k[2] % 2000) as usize } else { 0 };
    let digits: Vec<u8> = (0..n)
        .map(|i| match r.k[3] % 3 {
            0 => b'9',
            1 => b'0' + (gen::mix(r.a ^ i as u64) % 10) as u8,
            _ => {
                if i == 0 || i == n - 1 {
                    b'1'
                } else {
                    b'0'
                }
            }
        })
        .collect();
    let mut digits = digits;
    if digits[0] == b'0' {
        digits[0] = b'1';
    }
    if digits[n - 1] == b'0' {
        digits[n - 1] = b'3';
    }
    let mag: i64 = if r.b & 1 == 0 { -324 + (r.b >> 8) as i64 % 25 } else { 290 + (r.b >> 8) as i64 % 20 };
    // value ~ 0.D * 10^mag
    match r.sel[4] % 3 {
        0 => Case { int: digits, frac: vec![], exp: (mag - n as i64) as i32, family: "big-bigint", variant: "integer-only", layout: "integer-only", expect: None },
        1 => Case { int: vec![], frac: digits, exp: mag as i32, family: "big-bigint", variant: "fraction-only", layout: "fraction-only", expect: None },
        _ => {
            let k = 1 + (r.k[2] as usize) % (n - 1);
            Case { int: digits[..k].to_vec(), frac: digits[k..].to_vec(), exp: (mag - k as i64) as i32, family: "big-bigint", variant: "split", layout: "split", expect: None }
        }
    }
}

pub fn case_of(r: &Recipe, lim: Limits) -> Case {
    let fmt = if r.sel[7] & 1 == 0 { Fmt::F64 } else { Fmt::F32 };
    match pick_w(r.sel[0], &[25, 14, 13, 10, 10, 10, 10, 2, 2, 1, 1, 1, 2]) {
        9 => gen::g_p(fmt, r),
        10 => gen::g_r(fmt, r, lim),
        11 => {
            if fmt == Fmt::F64 {
                gen::g_s(r)
            } else {
                gen::g_t(fmt, r)
            }
        }
        12 => gen::g_t(fmt, r),
        0 => {
            // G-A with the long-length and extreme-exponent components turned up
            let mut r2 = r.clone();
            if r.k[3] % 2 == 0 {
                r2.sel[5] = 0xA000u16.wrapping_add(r.sel[5] / 3); // range-edge .. i32-extreme
            }
            if r.k[3] % 3 == 0 {
                r2.sel[2] = 0x9000u16.wrapping_add(r.sel[2] / 3); // long lengths
            }
            gen::g_a(fmt, &r2, lim)
        }
        1 => gen::g_f(fmt, r, lim),
        2 => gen::g_b(fmt, r, lim),
        3 => gen::g_c(fmt, r, lim),
        4 => gen::g_d(fmt, r),
        5 => gen::g_g(fmt, r, lim),
        6 => big_bigint(r),
        7 => gen::g_m(fmt, r),
        _ => gen::g_n(r),
    }
}

pub fn check_recipe(r: &Recipe, lim: Limits, stats: &mut Stats) -> Result<(), Failure> {
    let c = case_of(r, lim);
    stats.class(&format!("{} / {}", c.family, c.variant));
    check_case(&c, stats)
}

fn grid_case(i: u64, lens: &[usize], exps: &[i64]) -> Case {
    let np = 4u64;
    let nl = 3u64;
    let pat = i % np;
    let lay = (i / np) % nl;
    let e = exps[((i / (np * nl)) % exps.len() as u64) as usize];
    let len = lens[(i / (np * nl * exps.len() as u64)) as usize];
    let mut d: Vec<u8> = match pat {
        0 => vec![b'9'; len],
        1 => {
            let mut v = vec![b'0'; len];
            if len > 0 {
                v[0] = b'1';
            }
            v
        }
        2 => {
            let mut v = vec![b'0'; len];
            if len > 0 {
                v[len - 1] = b'1';
            }
            v
        }
        _ => (0..len).map(|j| b'0' + (gen::mix(i ^ (j as u64) << 20) % 10) as u8).collect(),
    };
    let (int, frac): (Vec<u8>, Vec<u8>) = match lay {
        0 => {
            // integer-only: first digit non-zero
            if let Some(f) = d.first_mut() {
                if *f == b'0' {
                    *f = b'1';
                }
            }
            (d, vec![])
        }
        1 => {
            // fraction-only: last digit non-zero
            if let Some(l) = d.last_mut() {
                if *l == b'0' {
                    *l = b'1';
                }
            }
            (vec![], d)
        }
        _ => {
            if len < 2 {
                if let Some(f) = d.first_mut() {
                    if *f == b'0' {
                        *f = b'1';
                    }
                }
                (d, vec![])
            } else {
                if d[0] == b'0' {
                    d[0] = b'1';
                }
                if d[len - 1] == b'0' {
                    d[len - 1] = b'1';
                }
                let k = len / 2;
                (d[..k].to_vec(), d[k..].to_vec())
            }
        }
    };
    Case { int, frac, exp: e.clamp(i32::MIN as i64, i32::MAX as i64) as i32, family: "grid", variant: ["all-nines", "one-then-zeros", "zeros-then-one", "random"][pat as usize], layout: ["integer-only", "fraction-only", "split"][lay as usize], expect: None }
}

fn grid_axes(tier: Tier) -> (Vec<usize>, Vec<i64>) {
    let mut lens: Vec<usize> = vec![0, 1, 2, 18, 19, 20, 21, 112, 113, 114, 115, 116, 767, 768, 769, 770, 771, 1000, 20_000];
    if tier == Tier::Thorough {
        lens.extend([100_000, 1_000_000]);
    }
    let mut exps: Vec<i64> = vec![i32::MIN as i64, i32::MIN as i64 + 1, -1_000_001, -1_000_000, -999_999, -4097, -4096, -4095, -400, -1, 0, 1, 400, 4095, 4096, 4097, 999_999, 1_000_000, 1_000_001, i32::MAX as i64 - 1, i32::MAX as i64];
    exps.extend(-345..=-322);
    exps.extend(-67..=-63);
    exps.extend(36..=40);
    exps.extend(306..=311);
    (lens, exps)
}

fn check_grid_point(i: u64, lens: &[usize], exps: &[i64], stats: &mut Stats) -> Result<(), Failure> {
    let c = grid_case(i, lens, exps);
    stats.class("grid");
    check_case(&c, stats)?;
    // the same digits with the exponent compensating the length (lands near the range ends / in range)
    for target in [-330i64, -320, -45, 0, 38, 300, 309] {
        let mut c2 = c.clone();
        c2.exp = (target - c.int.len() as i64) as i32;
        c2.variant = "grid-compensated";
        check_case(&c2, stats)?;
    }
    Ok(())
}

pub fn replay_sweep(i: u64, tier: Tier, stats: &mut Stats) -> Result<(), Failure> {
    let (lens, exps) = grid_axes(tier);
    check_grid_point(i, &lens, &exps, stats)
}

// ---------------------------------------------------------------------------
// Deep valid inputs for parse_float itself (child process of the supervisor, 2 MiB thread, every build incl.
// the unoptimised one): stack use must not grow with the number of digits.

pub const DEEP_KINDS: [&str; 7] = [
    "integer of nines",
    "fraction of threes",
    "1, then integer zeros, compensating exponent",
    "leading fraction zeros, then 7, compensating exponent",
    "tie 9007199254740993 + integer zeros + fraction 1, compensating exponent",
    "the largest finite f64 written out, then integer zeros, compensating exponent",
    "4.9406564584124654e-324 written as 49406564584124654 + integer zeros, compensating exponent",
];

pub fn deep_check(kind: usize, n: usize) -> Result<(), String> {
    let (int, frac, exp): (Vec<u8>, Vec<u8>, i32) = match kind {
        0 => (vec![b'9'; n], vec![], 0),
        1 => (vec![], vec![b'3'; n], 0),
        2 => {
            let mut i = vec![b'1'];
            i.extend(std::iter::repeat(b'0').take(n));
            (i, vec![], -(n as i32))
        }
        3 => {
            let mut f = vec![b'0'; n];
            f.push(b'7');
            (vec![], f, n as i32)
        }
        4 => {
            let mut i = b"9007199254740993".to_vec();
            i.extend(std::iter::repeat(b'0').take(n));
            (i, b"1".to_vec(), -(n as i32))
        }
        5 => {
            let mut i = b"17976931348623157".to_vec();
            i.extend(std::iter::repeat(b'0').take(n));
            (i, vec![], 292 - n as i32)
        }
        _ => {
            let mut i = b"49406564584124654".to_vec();
            i.extend(std::iter::repeat(b'0').take(n));
            (i, vec![], -340 - n as i32)
        }
    };
    let h = std::thread::Builder::new()
        .stack_size(2 << 20)
        .spawn(move || -> Result<(), String> {
            for fmt in [Fmt::F32, Fmt::F64] {
                let want = crate::oracle::expected_fast(fmt, &int, &frac, exp as i64);
                for cfg in CFGS.iter() {
                    match catch(|| cfg.parse(fmt, &int, &frac, exp)) {
                        Ok(bits) if bits == want => {}
                        Ok(bits) => return Err(format!("config {} returned {} for a deep valid input ({} digits) as {}, expected {}", cfg.name, fmt.hex(bits), int.len() + frac.len(), fmt.name(), fmt.hex(want))),
                        Err(m) => return Err(format!("config {} panicked on a deep valid input ({} digits): {m}", cfg.name, int.len() + frac.len())),
                    }
                }
            }
            Ok(())
        })
        .map_err(|e| e.to_string())?;
    match h.join() {
        Ok(r) => r,
        Err(_) => Err("the deep-input thread panicked".into()),
    }
}

pub fn run(ctx: &Ctx) -> i32 {
    let lim: Limits = ctx.tier.pick(Limits { long: 3_000, huge: 100_000 }, Limits { long: 10_000, huge: 1_000_000 });
    let mut rep = Report::new(
        "Every case is parsed as f32 and f64 in all 8 configurations under catch_unwind, in two separately compiled \
         harness binaries: `release` (optimised, no debug assertions) and `dbgchk` (debug assertions, arithmetic \
         overflow checks and core's UB-precondition checks on); a supervisor process attributes aborts. Any panic, \
         abort, NaN or negative result on valid input is a violation. Inputs: (a) the full grid lengths {0,1,18..21, \
         112..116,767..771,1e3,2e4 (1e5,1e6 in thorough)} x exponents {i32::MIN, MIN+1, -1e6+-1, -4097..-4095, -400, \
         -343..-324, -66..-64, -1,0,1, 37..39, 308..310, 400, 4095..4097, 1e6, MAX-1, MAX} x digit patterns {all 9, 1 \
         then 0s, 0s then 1, random} x layouts {integer-only, fraction-only, split}; (b) generated: shaped random with \
         long lengths and extreme exponents turned up, range ends, midpoints, closest approaches, short ties, long \
         tails, and a family maximising big-integer size (>= 770 significant digits at decimal magnitudes -324..-300 \
         and 290..309). Non-trivial: big-integer path taken, or length >= 770, or |exponent| >= 1e5; distinct by \
         fingerprint.",
    );
    rep.assume("the debug_assert!(shift <= 65) in rounding.rs reachable only through Lemire's lo == u64::MAX fallback (a ~2^-73 coincidence) is not reached by generation; stated so a green run is not over-read");
    let (lens, exps) = grid_axes(ctx.tier);
    let n = lens.len() as u64 * exps.len() as u64 * 12;
    let r = run_sweep(n, ctx.threads, |i, stats| check_grid_point(i, &lens, &exps, stats));
    rep.absorb(r);
    rep.extra.insert("grid".into(), json!({"lengths": lens, "exponents": exps.len(), "patterns": 4, "layouts": 3, "points": n, "plus_compensated_exponents_per_point": 7}));
    let cases = ctx.cases(if cfg!(debug_assertions) { 150_000 } else { 400_000 }, if cfg!(debug_assertions) { 5_000_000 } else { 20_000_000 });
    let r = run_recipes(ctx.seed, cases, ctx.threads, 4, |r, stats| check_recipe(r, lim, stats));
    rep.absorb(r);
    rep.extra.insert("build".into(), json!(BUILD));
    for k in ["big-integer-path(f64)", "length>=770", "abs-exponent>=1e5", "exponent-i32-extreme"] {
        require_counter(&mut rep, k, 500);
    }
    finish(ctx, rep)
}
