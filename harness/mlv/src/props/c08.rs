//! C08: arbitrary bytes never cause undefined memory access (proptest engine;
//! the ASan libFuzzer engine lives under /verif/fuzz and is driven by the supervisor).

use crate::cfgs::CFGS;
use crate::gen::{self, pick_w, Recipe};
use crate::oracle::Fmt;
use crate::runner::{catch, finish, require_counter, run_recipes, Ctx, Failure, Report, Stats};
use serde_json::json;

pub const BUILD: &str = if cfg!(debug_assertions) { "dbgchk" } else { "release" };

/// G-I hostile bytes.
pub fn hostile(r: &Recipe, salt: u64, max_len: usize) -> Vec<u8> {
    let s = gen::mix(r.a ^ salt);
    let len = match pick_w((s >> 48) as u16, &[8, 14, 14, 14, 14, 12, 12, 8, 4]) {
        0 => 0,
        1 => 1 + (s as usize) % 4,
        2 => 5 + (s as usize) % 16,
        3 => 19 + (s as usize) % 4,
        4 => 23 + (s as usize) % 100,
        5 => 760 + (s as usize) % 20,
        6 => 1000 + (s as usize) % 600,
        7 => (s as usize) % (max_len / 4 + 1),
        _ => max_len - (s as usize) % 16,
    }
    .min(max_len);
    let style = (s >> 32) % 8;
    (0..len)
        .map(|i| {
            let x = gen::mix(s ^ (i as u64 + 1).wrapping_mul(0x9e37_79b9_7f4a_7c15));
            match style {
                0 => x as u8,                                            // uniform bytes
                1 => {
                    if x % 17 == 0 {
                        (x >> 8) as u8
                    } else {
                        b'0' + ((x >> 8) % 10) as u8
                    }
                } // digits with a few wild bytes
                2 => [0x00, b'/', b'0', b'9', b':', 0x80, 0xFF][(x % 7) as usize], // edge bytes only
                3 => 0xFF,                                               // digit value 207 after the wrapping subtraction
                4 => {
                    if i < len / 2 {
                        b'0'
                    } else {
                        0xFF
                    }
                }
                5 => {
                    if x % 5 == 0 {
                        0xFF
                    } else {
                        b'9'
                    }
                }
                6 => b'0' + (x % 10) as u8, // valid digits, but with leading / trailing zeros left in
                _ => {
                    if i % 2 == 0 {
                        b'0'
                    } else {
                        (x >> 16) as u8
                    }
                }
            }
        })
        .collect()
}

pub fn exponent(r: &Recipe) -> i32 {
    match r.k[0] % 6 {
        0 => (r.b % 61) as i32 - 30,
        1 => (r.b % 801) as i32 - 400,
        2 => [i32::MIN, i32::MIN + 1, i32::MAX, i32::MAX - 1, -0x1000, 0x1000][(r.b % 6) as usize],
        3 => r.b as i32,
        4 => -((r.b % 2000) as i32),
        _ => (r.b % 2000) as i32,
    }
}

pub fn check_recipe(r: &Recipe, max_len: usize, stats: &mut Stats) -> Result<(), Failure> {
    // "arbitrary bytes" includes valid digits: one case in eight is a valid input from the families that
    // load the big-integer code hardest (boundaries, long tails, sparse-limb integers, maximal big integers)
    // (not under the interpreter: building boundary inputs with the harness's own bignum is what takes an hour
    // there; the targeted Miri stage parses natively generated valid inputs instead)
    let (int, frac, exp) = if r.sel[7] < 0x2000 && !cfg!(miri) {
        let c = super::c04::case_of(r, gen::Limits { long: 2_000, huge: max_len });
        (c.int, c.frac, c.exp)
    } else {
        (hostile(r, 1, max_len), if r.k[1] % 4 == 0 { Vec::new() } else { hostile(r, 2, max_len) }, exponent(r))
    };
    let wild = int.iter().chain(frac.iter()).any(|c| !c.is_ascii_digit());
    let zero_rule = int.first() == Some(&b'0') || frac.last() == Some(&b'0');
    for fmt in [Fmt::F64, Fmt::F32] {
        for cfg in CFGS.iter() {
            // every call either returns a float or panics cleanly; anything else (abort, signal) kills this
            // worker process and is attributed by the supervisor
            match catch(|| cfg.parse(fmt, &int, &frac, exp)) {
                Ok(bits) => {
                    std::hint::black_box(bits);
                    stats.count(&format!("{BUILD}:outcome-value"));
                }
                Err(_) => {
                    stats.count(&format!("{BUILD}:outcome-clean-panic"));
                    let loc = crate::runner::last_panic_location();
                    stats.count(&format!("{BUILD}:panic-at:{}", loc.rsplit("/src/").next().unwrap_or("?")));
                }
            }
        }
    }
    stats.class(if wild { "non-digit bytes" } else if zero_rule { "digits with leading/trailing zeros" } else { "valid digits" });
    if wild || zero_rule {
        if int.len() + frac.len() >= 20 {
            stats.count("preconditions-violated-and->=20-bytes");
        }
        if int.len() + frac.len() >= 770 {
            stats.count("preconditions-violated-and->=770-bytes");
        }
        let mut h = 0xcbf2_9ce4_8422_2325u64;
        for &b in int.iter().chain([0x2e].iter()).chain(frac.iter()) {
            h = (h ^ b as u64).wrapping_mul(0x1000_0000_01b3);
        }
        stats.nontrivial.push(gen::mix(h ^ exp as u64));
        stats.sample(&format!("{} / style", if wild { "wild" } else { "zeros" }), || {
            json!({"integer_len": int.len(), "fraction_len": frac.len(), "exponent": exp, "integer_head": int.iter().take(16).collect::<Vec<_>>(), "fraction_head": frac.iter().take(16).collect::<Vec<_>>()})
        });
    }
    Ok(())
}

pub fn run(ctx: &Ctx) -> i32 {
    let max_len = 10_000;
    let mut rep = Report::new(
        "Engine 2 (this file): byte strings of any byte values (uniform; digits with a few wild bytes; only {0x00,'/', \
         '0','9',':',0x80,0xFF}; runs of 0xFF - digit value 207 after the wrapping subtraction, the worst case for the \
         big-integer capacity argument; half zeros half 0xFF; valid digits with leading/trailing zeros left in), \
         lengths 0..10^4, any i32 exponent, parsed as f32 and f64 in all 8 configurations under catch_unwind in the \
         `release` build (wrapping arithmetic: out-of-range 'digits' really flow into table indices and the big \
         integer) and in the `dbgchk` build (debug assertions, overflow checks, core's UB-precondition checks on \
         get_unchecked / ptr::copy / from_raw_parts, which abort). Outcome classes: value / clean unwinding panic (both \
         fine) / abort or signal (violation, attributed by the supervisor process). Engine 1: the coverage-guided \
         libFuzzer target fz_bytes under AddressSanitizer with debug assertions, driven by the same command (see \
         coverage.fuzz). Non-trivial: at least one byte outside '0'..='9' or a leading/trailing zero; distinct by input \
         bytes and exponent.",
    );
    rep.assume("undefined behaviour that neither ASan, the UB-precondition checks nor an abnormal process exit can show is not observed");
    let cases = ctx.cases(if cfg!(debug_assertions) { 100_000 } else { 200_000 }, if cfg!(debug_assertions) { 5_000_000 } else { 20_000_000 });
    let r = run_recipes(ctx.seed, cases, ctx.threads, 8, |r, stats| check_recipe(r, max_len, stats));
    rep.absorb(r);
    rep.extra.insert("build".into(), json!(BUILD));
    require_counter(&mut rep, "preconditions-violated-and->=770-bytes", 1000);
    require_counter(&mut rep, &format!("{BUILD}:outcome-clean-panic"), 100);
    require_counter(&mut rep, &format!("{BUILD}:outcome-value"), 1000);
    finish(ctx, rep)
}

#[allow(dead_code)]
fn _f(_: Failure) {}
