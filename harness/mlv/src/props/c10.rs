//! C10: equal values written differently give identical bits (metamorphic).

use super::common::{parse_all, raw_detail};
use crate::cfgs::CFGS;
use crate::gen::{self, Limits};
use crate::oracle::{Dec, Fmt};
use crate::runner::{finish, require_counter, run_recipes, Ctx, Failure, Report};
use serde_json::json;
use std::collections::BTreeSet;

fn ascii(d: &[u8]) -> Vec<u8> {
    d.iter().map(|x| x + b'0').collect()
}

pub fn run(ctx: &Ctx) -> i32 {
    let lim: Limits = ctx.tier.pick(Limits { long: 1_200, huge: 2_000 }, Limits { long: 2_000, huge: 10_000 });
    let mut rep = Report::new(
        "A digit sequence D (from the C01/C02 mixture: midpoints, closest approaches, seams, shaped random; 1..1200 digits, \
         up to 1e4 in thorough) and exponent E define a value; the group of representations of that value is: the \
         canonical all-integer form, re-splittings int=D[..k], frac=D[k..], exponent+|frac| for every k (all k when \
         |D| <= 48, else 48 positions incl. both ends, 18..21 and 767..771), fraction-only forms with z extra leading \
         zeros (z in 0..400), integer forms with t trailing zeros and exponent -t, and each of these with j in \
         {1,2,3,7,19,20,40} zeros appended to the fraction (the issue-#20 tolerance named by the property). All members \
         must parse to the canonical member's bits in all 8 configurations, f32 and f64. Exponents stay far from i32 \
         saturation so equality of value is exact; it is re-verified with the exact decimal normaliser. A group counts \
         once; it is non-trivial if its members were routed to at least two different internal paths or Number \
         triples (mantissa, exponent, many_digits) by the real code.",
    );
    rep.assume("members with zeros appended to the fraction violate precondition 2 formally; the property statement names them explicitly");
    let cases = ctx.cases(40_000, 2_000_000);
    let r = run_recipes(ctx.seed, cases, ctx.threads, 10, |r, stats| {
        let fmt = if r.sel[7] & 1 == 0 { Fmt::F64 } else { Fmt::F32 };
        let base = gen::mixed(fmt, r, lim);
        let v: Dec = gen::value_of(&base);
        if v.is_zero() || v.digits.len() > lim.huge || v.point.abs() > 1_000_000 {
            stats.count("skipped-zero-or-extreme");
            return Ok(());
        }
        let d = &v.digits;
        let n = d.len();
        let e10 = v.point - n as i64; // value = D * 10^e10
        let canon = (ascii(d), Vec::new(), e10 as i32);
        let mut members: Vec<(Vec<u8>, Vec<u8>, i32, &'static str)> = Vec::new();
        // split positions
        let mut ks: BTreeSet<usize> = BTreeSet::new();
        if n <= 48 {
            ks.extend(0..=n);
        } else {
            ks.extend([0, 1, 2, n - 1, n]);
            for k in [17usize, 18, 19, 20, 21, 22, 112, 113, 114, 115, 767, 768, 769, 770, 771] {
                if k <= n {
                    ks.insert(k);
                    ks.insert(n - k);
                }
            }
            let mut s = r.b;
            while ks.len() < 48 {
                s = gen::mix(s);
                ks.insert((s % (n as u64 + 1)) as usize);
            }
        }
        for &k in &ks {
            // int = D[..k] (k = 0: fraction-only), frac = D[k..]; D has no leading/trailing zero
            members.push((ascii(&d[..k]), ascii(&d[k..]), (e10 + (n - k) as i64) as i32, "split"));
        }
        for z in [1usize, 2, 5, 19, 20, 64, 300, 400, (r.k[0] % 400) as usize] {
            let mut f = vec![b'0'; z];
            f.extend(ascii(d));
            members.push((Vec::new(), f, (e10 + n as i64 + z as i64) as i32, "fraction-leading-zeros"));
        }
        for t in [1usize, 2, 5, 19, 20, 300, (r.k[1] % 400) as usize] {
            let mut i = ascii(d);
            i.extend(std::iter::repeat(b'0').take(t));
            members.push((i, Vec::new(), (e10 - t as i64) as i32, "integer-trailing-zeros"));
        }
        // appended fraction zeros on a sample of the members
        let base_count = members.len();
        for (mi, j) in [(0usize, 1usize), (1, 2), (2, 3), (3, 7), (4, 19), (5, 20), (6, 40), (base_count / 2, 40), (base_count - 1, 1)] {
            if mi < base_count {
                let (i, f, e, _) = members[mi].clone();
                let mut f2 = f;
                f2.extend(std::iter::repeat(b'0').take(j));
                members.push((i, f2, e, "appended-fraction-zeros"));
            }
        }
        let want = parse_all(fmt, &canon.0, &canon.1, canon.2, "C10")?;
        let mut routes: BTreeSet<(u64, i32, bool, &'static str)> = BTreeSet::new();
        let mut routes_c: BTreeSet<&'static str> = BTreeSet::new();
        for (int, frac, exp, kind) in &members {
            if Dec::from_input(int, frac, *exp as i64) != v {
                return Err(Failure::harness(format!("generator: member ({kind}) does not denote the same value"), json!({})));
            }
            let got = parse_all(fmt, int, frac, *exp, "C10")?;
            for c in 0..8 {
                if got[c] != want[c] {
                    return Err(Failure::violation(
                        format!(
                            "same value, different bits in config {} ({}): canonical {}e{} -> {} but {} form {}.{}e{} -> {}",
                            CFGS[c].name, fmt.name(), gen::abbreviate(&canon.0), canon.2, fmt.hex(want[c]),
                            kind, gen::abbreviate(int), gen::abbreviate(frac), exp, fmt.hex(got[c])
                        ),
                        format!("equal-value:{}:{}:{}", if CFGS[c].compact { "compact" } else { "lemire" }, fmt.name(), kind),
                        json!({"kind": "pair", "format": fmt.name(), "config": CFGS[c].name, "step": kind, "equal_value": true,
                               "a": raw_detail(fmt, CFGS[c].name, &canon.0, &canon.1, canon.2, json!({})),
                               "b": raw_detail(fmt, CFGS[c].name, int, frac, *exp, json!({})),
                               "a_bits": fmt.hex(want[c]), "b_bits": fmt.hex(got[c])}),
                    ));
                }
            }
            stats.count(&format!("member:{kind}"));
            if !frac.ends_with(b"0") || frac.is_empty() {
                let p = CFGS[0].path(fmt, int, frac, *exp);
                routes.insert((p.mantissa, p.exponent, p.many_digits, p.label()));
                routes_c.insert(CFGS[1].path(fmt, int, frac, *exp).label());
            }
        }
        stats.add("members", members.len() as u64);
        stats.class(&format!("{} / {}", base.family, base.variant));
        if routes.len() >= 2 || routes_c.len() >= 2 {
            stats.count("groups-with->=2-routes");
            if routes.iter().map(|r| r.3).collect::<BTreeSet<_>>().len() >= 2 || routes_c.len() >= 2 {
                stats.count("groups-with->=2-internal-paths");
            }
            stats.nontrivial.push(base.fingerprint() ^ fmt as u64);
            stats.sample(&format!("{} group from {}", fmt.name(), base.family), || {
                json!({"digits": gen::abbreviate(&canon.0), "exponent10": e10, "members": members.len(),
                       "distinct_number_triples_or_paths": routes.len(), "paths_default": routes.iter().map(|r| r.3).collect::<BTreeSet<_>>(), "paths_compact": routes_c})
            });
        }
        Ok(())
    });
    rep.absorb(r);
    require_counter(&mut rep, "groups-with->=2-routes", 1000);
    require_counter(&mut rep, "groups-with->=2-internal-paths", 200);
    finish(ctx, rep)
}
