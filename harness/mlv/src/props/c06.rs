//! C06: arbitrarily long digit strings are still rounded correctly.

use super::common::{account, all_cfgs, check_rounding};
use crate::gen::{self, pick_w, Limits};
use crate::oracle::Fmt;
use crate::runner::{finish, require_counter, run_recipes, Ctx, Report};

pub fn run(ctx: &Ctx) -> i32 {
    // long strings are the point: raise the routine length limit
    let lim: Limits = ctx.tier.pick(Limits { long: 10_000, huge: 100_000 }, Limits { long: 10_000, huge: 1_000_000 });
    let cfgs = all_cfgs();
    let mut rep = Report::new(
        "G-G long-tail family (plus closest-approach inputs followed by long tails): the exact halfway point H of a \
         generated float, then one of H||0^n||d (must round up), (H-1ulp)||9^n (must round down), H||0^n (must behave \
         as the tie), with the deciding digit at a chosen absolute position sweeping 18..22, MAX_DIGITS-2..+3 \
         (767..772 / 112..117), every 19-digit chunk edge +-1 up to 780, 1e3, 1e4 and (rarely) 1e5/1e6, in integer-only, \
         fraction-only-with-leading-zeros and split layouts, for f32 and f64, in all 8 configurations. Expected value \
         by construction and by the oracle independently. Every case has >= 20 significant digits; non-trivial = \
         distinct fingerprint of such a case (all are non-trivial by construction); counters report how many had the \
         deciding digit beyond MAX_DIGITS and beyond 1e4.",
    );
    rep.assume("same oracle as C01; expectation by construction cross-checked against it (disagreement = harness error)");
    let cases = ctx.cases(400_000, 12_000_000);
    let r = run_recipes(ctx.seed, cases, ctx.threads, 6, |r, stats| {
        let fmt = if r.sel[7] & 1 == 0 { Fmt::F64 } else { Fmt::F32 };
        let c = match pick_w(r.sel[0], &[66, 22, 4, 4, 4]) {
            0 => gen::g_g(fmt, r, lim),
            2 => gen::g_p(fmt, r),
            3 => {
                // long digit strings with *any* exponent class (the quantifier says "all exponents"), incl. i32 extremes
                let mut r2 = r.clone();
                r2.sel[2] = 0x6000u16.wrapping_add(r.sel[2] / 2); // lengths >= 22
                gen::g_a(fmt, &r2, lim)
            }
            4 => {
                let mut r2 = r.clone();
                r2.sel[6] = 0xF000; // uncompensable exponents next to the i32 limits, long digit strings
                r2.sel[2] = 0x6000u16.wrapping_add(r.sel[2] / 2);
                gen::g_f(fmt, &r2, lim)
            }
            _ => {
                // closest approaches with tails only
                let mut r2 = r.clone();
                r2.sel[2] = 0x8000 + r.sel[2] / 4; // variants 1..2 ("0^n 1" / "9^n")
                gen::g_c(fmt, &r2, lim)
            }
        };
        let bits = check_rounding(fmt, &c, &cfgs)?;
        account(fmt, &c, bits, stats, true);
        let n = c.sig_len();
        if n >= 20 {
            stats.nontrivial.push(c.fingerprint());
        }
        let maxd = match fmt {
            Fmt::F32 => 114,
            Fmt::F64 => 769,
        };
        if n > maxd {
            stats.count("deciding-digit-beyond-MAX_DIGITS");
        }
        if n >= maxd - 2 && n <= maxd + 3 {
            stats.count("deciding-digit-at-MAX_DIGITS-edge");
        }
        if n > 10_000 {
            stats.count("deciding-digit-beyond-1e4");
        }
        if n >= 100_000 {
            stats.count("deciding-digit-beyond-1e5");
        }
        Ok(())
    });
    rep.absorb(r);
    require_counter(&mut rep, "deciding-digit-beyond-MAX_DIGITS", 1000);
    require_counter(&mut rep, "deciding-digit-at-MAX_DIGITS-edge", 1000);
    require_counter(&mut rep, "deciding-digit-beyond-1e4", 10);
    finish(ctx, rep)
}
