//! C09: parsing is monotonic in the decimal value (metamorphic; the rounding
//! oracle is not consulted).

use super::common::{parse_all, raw_detail};
use crate::cfgs::CFGS;
use crate::gen::{self, layout, pick_w, Limits, Recipe};
use crate::oracle::{Dec, Fmt};
use crate::runner::{finish, require_counter, run_recipes, Ctx, Failure, Report};
use serde_json::json;
use std::cmp::Ordering;

/// d := d + one unit at digit index `i` (0-based from the most significant).
fn inc_at(d: &mut Dec, i: usize) {
    while d.digits.len() <= i {
        d.digits.push(0);
    }
    let mut j = i as i64;
    loop {
        if j < 0 {
            d.digits.insert(0, 1);
            d.point += 1;
            break;
        }
        if d.digits[j as usize] == 9 {
            d.digits[j as usize] = 0;
            j -= 1;
        } else {
            d.digits[j as usize] += 1;
            break;
        }
    }
    while let Some(&0) = d.digits.last() {
        d.digits.pop();
    }
}

pub const STEPS: [&str; 7] = ["inc-last", "inc-random-place", "append-digits", "tail->nines", "exponent+1", "same-value-relayout", "inc-place-19/20"];

/// One order-preserving step: returns a Dec >= the input.
fn step(d: &Dec, r: &Recipe, i: usize, lim: Limits) -> (Dec, &'static str) {
    let mut n = d.clone();
    let knob = gen::mix(r.b ^ (i as u64) << 7 ^ r.k[i % 4] as u64);
    if n.is_zero() {
        n.digits = vec![1 + (knob % 9) as u8];
        n.point = (knob >> 8) as i64 % 600 - 300;
        return (n, "from-zero");
    }
    let which = pick_w((knob >> 16) as u16, &[22, 13, 13, 13, 8, 20, 11]);
    match which {
        0 => {
            let l = n.digits.len();
            inc_at(&mut n, l - 1);
        }
        1 => {
            let l = n.digits.len();
            inc_at(&mut n, (knob >> 32) as usize % l);
        }
        2 => {
            let cnt = match (knob >> 32) % 4 {
                0 => 1,
                1 => 2 + (knob >> 40) as usize % 20,
                2 => 700 + (knob >> 40) as usize % 100,
                _ => (knob >> 40) as usize % lim.long.max(2),
            };
            for _ in 0..cnt.saturating_sub(1) {
                n.digits.push(0);
            }
            n.digits.push(1 + (knob % 9) as u8);
        }
        3 => {
            let l = n.digits.len();
            let from = 1 + (knob >> 32) as usize % l;
            n.digits.truncate(from);
            let cnt = 1 + (knob >> 44) as usize % 40;
            // replacing the tail by nines (at least as many as were there) never decreases the value
            let cnt = cnt.max(l - from);
            n.digits.extend(std::iter::repeat(9).take(cnt));
        }
        4 => n.point += 1,
        5 => {}
        _ => {
            // one unit at significant place 19, 20 or 21 (the truncation seam)
            let place = 18 + (knob >> 32) as usize % 3;
            inc_at(&mut n, place);
        }
    }
    (n, STEPS[which])
}

pub fn run(ctx: &Ctx) -> i32 {
    let lim: Limits = ctx.tier.pick(gen::QUICK, gen::THOROUGH);
    let mut rep = Report::new(
        "Chains of 3-8 inputs a_0 <= a_1 <= ... built by construction: a base input from the C01/C02 mixture (so the chain \
         starts at a rounding boundary, an algorithm seam or a range end) followed by order-preserving steps (one unit \
         in the last place incl. 9..9 -> 10..0 carries; one unit at a random place or at place 19/20/21; appended \
         digits; tail replaced by nines; exponent+1; same value in another integer/fraction/exponent layout). Each \
         element is laid out independently (integer-only / fraction-only / split / natural / leading zeros) so that \
         neighbours take different internal paths. Oracle: metamorphic - parsed bits must be non-decreasing along the \
         chain in each of the 8 configurations and both formats; equal values must give equal bits. The generator's \
         ordering is re-verified with an exact decimal comparison (a slip is a harness error). Non-trivial: a chain in \
         which two neighbours take different internal paths (default or compact configuration) or differ only beyond \
         digit 19 or parse to different floats; distinct by fingerprint of the whole chain.",
    );
    rep.assume("ordering of generated inputs is by construction and re-checked with exact decimal comparison");
    let cases = ctx.cases(500_000, 30_000_000);
    let r = run_recipes(ctx.seed, cases, ctx.threads, 9, |r, stats| {
        let fmt = if r.sel[7] & 1 == 0 { Fmt::F64 } else { Fmt::F32 };
        let base = gen::mixed(fmt, r, lim);
        if base.sig_len() > lim.long * 2 {
            // keep chains affordable: very long bases are covered by C06
            stats.count("skipped-very-long-base");
        }
        let len = 3 + (r.k[3] % 6) as usize;
        let mut chain: Vec<(Vec<u8>, Vec<u8>, i32, Dec, &'static str)> = Vec::with_capacity(len);
        let d0 = gen::value_of(&base);
        chain.push((base.int.clone(), base.frac.clone(), base.exp, d0, "base"));
        for i in 1..len {
            let prev = &chain[i - 1].3;
            let (d, name) = step(prev, r, i, lim);
            if prev.cmp(&d) == Ordering::Greater {
                return Err(Failure::harness(format!("generator produced a decreasing step ({name})"), json!({})));
            }
            let sel = gen::mix(r.a ^ i as u64) as u16;
            let (mut int, mut frac, mut exp, _lay) = layout(&d.digits, d.point, sel, r.k[i % 4], false);
            if Dec::from_input(&int, &frac, exp as i64) != d {
                // the exponent of this layout does not fit an i32 (values next to 10^+-2^31): use a layout that
                // denotes the value exactly - a fraction with just enough leading zeros, or an integer with
                // trailing zeros - or end the chain
                let digits: Vec<u8> = d.digits.iter().map(|x| x + b'0').collect();
                let lo = i32::MIN as i64;
                let hi = i32::MAX as i64;
                if d.point < lo && lo - d.point <= 4000 {
                    let z = (lo - d.point) as usize + (r.k[i % 4] % 3) as usize;
                    frac = vec![b'0'; z];
                    frac.extend(&digits);
                    int = Vec::new();
                    exp = (d.point + z as i64) as i32;
                } else if d.point - (digits.len() as i64) > hi && d.point - digits.len() as i64 - hi <= 4000 {
                    let t = (d.point - digits.len() as i64 - hi) as usize;
                    int = digits.clone();
                    int.extend(std::iter::repeat(b'0').take(t));
                    frac = Vec::new();
                    exp = i32::MAX;
                } else if d.point >= lo && d.point <= hi {
                    int = Vec::new();
                    frac = digits.clone();
                    exp = d.point as i32;
                } else {
                    break;
                }
                if Dec::from_input(&int, &frac, exp as i64) != d {
                    break;
                }
                stats.count("extreme-exponent-exact-layout");
            }
            chain.push((int, frac, exp, d, name));
        }
        let mut prev_bits: Option<[u64; 8]> = None;
        let mut fp = 0u64;
        let mut nt = false;
        for (idx, (int, frac, exp, d, name)) in chain.iter().enumerate() {
            let res = parse_all(fmt, int, frac, *exp, "C09")?;
            stats.count(&format!("step:{name}"));
            fp = gen::mix(fp ^ res[0] ^ gen::mix(*exp as u64 ^ ((int.len() as u64) << 32) ^ ((frac.len() as u64) << 48) ^ d.digits.iter().take(24).fold(0u64, |h, &x| h.wrapping_mul(11).wrapping_add(x as u64))));
            if let Some(pb) = prev_bits {
                let (pint, pfrac, pexp, pd, _) = &chain[idx - 1];
                let equal_value = pd.cmp(d) == Ordering::Equal;
                for c in 0..8 {
                    // results are non-negative floats: bit order == numeric order (NaN would be > inf and is caught too)
                    let bad = if equal_value { res[c] != pb[c] } else { res[c] < pb[c] };
                    if bad || res[c] > fmt.inf_bits() {
                        return Err(Failure::violation(
                            format!(
                                "order violated in config {} ({}): {}.{}e{} -> {} but larger-or-equal {}.{}e{} -> {} (step {})",
                                CFGS[c].name, fmt.name(),
                                gen::abbreviate(pint), gen::abbreviate(pfrac), pexp, fmt.hex(pb[c]),
                                gen::abbreviate(int), gen::abbreviate(frac), exp, fmt.hex(res[c]), name
                            ),
                            format!("order:{}:{}", if CFGS[c].compact { "compact" } else { "lemire" }, fmt.name()),
                            json!({"kind": "pair", "format": fmt.name(), "config": CFGS[c].name, "step": name,
                                   "a": raw_detail(fmt, CFGS[c].name, pint, pfrac, *pexp, json!({})),
                                   "b": raw_detail(fmt, CFGS[c].name, int, frac, *exp, json!({})),
                                   "a_bits": fmt.hex(pb[c]), "b_bits": fmt.hex(res[c]), "equal_value": equal_value}),
                        ));
                    }
                }
                let p0 = CFGS[0].path(fmt, pint, pfrac, *pexp);
                let p1 = CFGS[0].path(fmt, int, frac, *exp);
                let q0 = CFGS[1].path(fmt, pint, pfrac, *pexp);
                let q1 = CFGS[1].path(fmt, int, frac, *exp);
                if p0.label() != p1.label() || q0.label() != q1.label() {
                    stats.count("neighbours-on-different-paths");
                    nt = true;
                }
                if res[0] != pb[0] {
                    stats.count("neighbours-parse-to-different-floats");
                    nt = true;
                }
                let common = pd.digits.iter().zip(d.digits.iter()).take_while(|(a, b)| a == b).count();
                if pd.point == d.point && common >= 19 && !equal_value {
                    stats.count("neighbours-differ-only-beyond-digit-19");
                    nt = true;
                }
                if equal_value {
                    stats.count("equal-value-pairs");
                }
            }
            prev_bits = Some(res);
        }
        stats.add("chain-elements", chain.len() as u64);
        if nt {
            stats.nontrivial.push(fp);
            stats.sample(&format!("{} chain from {}", fmt.name(), base.family), || {
                json!(chain.iter().map(|(i, f, e, _, n)| json!({"step": n, "integer": gen::abbreviate(i), "fraction": gen::abbreviate(f), "exponent": e})).collect::<Vec<_>>())
            });
        }
        Ok(())
    });
    rep.absorb(r);
    for k in ["neighbours-on-different-paths", "neighbours-parse-to-different-floats", "neighbours-differ-only-beyond-digit-19"] {
        require_counter(&mut rep, k, 1000);
    }
    finish(ctx, rep)
}

pub fn replay(v: &serde_json::Value) -> Result<bool, String> {
    let case = &v["case"];
    let fmt = match case["format"].as_str() {
        Some("f32") => Fmt::F32,
        Some("f64") => Fmt::F64,
        _ => return Err("replay: missing format".into()),
    };
    let get = |k: &str| -> Result<(Vec<u8>, Vec<u8>, i32), String> {
        let c = &case[k];
        Ok((
            c["integer"].as_str().ok_or("integer")?.as_bytes().to_vec(),
            c["fraction"].as_str().ok_or("fraction")?.as_bytes().to_vec(),
            c["exponent"].as_i64().ok_or("exponent")? as i32,
        ))
    };
    let a = get("a")?;
    let b = get("b")?;
    let da = Dec::from_input(&a.0, &a.1, a.2 as i64);
    let db = Dec::from_input(&b.0, &b.1, b.2 as i64);
    let ord = da.cmp(&db);
    if ord == Ordering::Greater {
        return Err("replay: a > b".into());
    }
    let ra = parse_all(fmt, &a.0, &a.1, a.2, "replay").map_err(|f| f.message)?;
    let rb = parse_all(fmt, &b.0, &b.1, b.2, "replay").map_err(|f| f.message)?;
    let mut bad = false;
    for c in 0..8 {
        let v = if ord == Ordering::Equal { ra[c] != rb[c] } else { rb[c] < ra[c] };
        println!("replay: config {}: a -> {}, b -> {} {}", CFGS[c].name, fmt.hex(ra[c]), fmt.hex(rb[c]), if v { "ORDER VIOLATED" } else { "" });
        bad |= v;
    }
    Ok(bad)
}
