//! Extract the shipped string front-end copies (C19) from the repository
//! sources, so the harness compiles and tests *the repository's* code.
//! Only textual changes: inner doc comments (`//!`) become plain comments,
//! crate-level inner attributes and `extern crate minimal_lexical;` are
//! commented out (the including module provides `minimal_lexical`), and a
//! wrapper `verif_entry_f32/f64` is appended.

use std::path::PathBuf;

fn main() {
    let repo = PathBuf::from(std::env::var("VERIF_REPO").unwrap_or_else(|_| "/repo".into()));
    let out = PathBuf::from(std::env::var("OUT_DIR").unwrap());
    println!("cargo:rerun-if-env-changed=VERIF_REPO");
    let files = [
        ("front_simple.rs", "examples/simple.rs"),
        ("front_fuzz.rs", "fuzz/fuzz_targets/parse.rs"),
        ("front_tests.rs", "tests/integration_tests.rs"),
        ("front_golang.rs", "etc/correctness/test-parse-golang/main.rs"),
    ];
    // The remaining copies live in files that also need crates which are not cached (rand, toml, ...):
    // only the front-end itself is extracted, textually, from `fn parse_sign` to the end of `parse_float`.
    let sliced = [
        ("front_rng_tests.rs", "etc/correctness/rng-tests/_common.rs"),
        ("front_parse_random.rs", "etc/correctness/test-parse-random/_common.rs"),
        ("front_unittests.rs", "etc/correctness/test-parse-unittests/main.rs"),
    ];
    for (name, rel) in sliced {
        let path = repo.join(rel);
        println!("cargo:rerun-if-changed={}", path.display());
        let text = std::fs::read_to_string(&path).unwrap_or_else(|e| panic!("cannot read {}: {e}", path.display()));
        let lines: Vec<&str> = text.lines().collect();
        let start = lines.iter().position(|l| l.contains("fn parse_sign")).unwrap_or_else(|| panic!("{rel}: no parse_sign"));
        let pf = lines.iter().position(|l| l.contains("fn parse_float")).unwrap_or_else(|| panic!("{rel}: no parse_float"));
        let end = pf + lines[pf..].iter().position(|l| *l == "}").unwrap_or_else(|| panic!("{rel}: unterminated parse_float"));
        let mut o = String::new();
        for l in &lines[start..=end] {
            o.push_str(l);
            o.push('\n');
        }
        o.push_str(
            "\npub fn verif_entry_f32(b: &[u8]) -> (f32, &[u8]) {\n    parse_float::<f32>(b)\n}\n\npub fn verif_entry_f64(b: &[u8]) -> (f64, &[u8]) {\n    parse_float::<f64>(b)\n}\n",
        );
        std::fs::write(out.join(name), o).unwrap();
    }
    for (name, rel) in files {
        let path = repo.join(rel);
        println!("cargo:rerun-if-changed={}", path.display());
        let text = std::fs::read_to_string(&path).unwrap_or_else(|e| panic!("cannot read {}: {e}", path.display()));
        let mut o = String::new();
        for line in text.lines() {
            let t = line.trim_start();
            if t.starts_with("//!") {
                o.push_str(&line.replacen("//!", "//", 1));
            } else if t.starts_with("#![") || t.starts_with("extern crate minimal_lexical") {
                o.push_str("// ");
                o.push_str(line);
            } else {
                o.push_str(line);
            }
            o.push('\n');
        }
        o.push_str(
            "\npub fn verif_entry_f32(b: &[u8]) -> (f32, &[u8]) {\n    parse_float::<f32>(b)\n}\n\npub fn verif_entry_f64(b: &[u8]) -> (f64, &[u8]) {\n    parse_float::<f64>(b)\n}\n",
        );
        std::fs::write(out.join(name), o).unwrap();
    }
}
