//! One module per feature configuration, all linked into this process.

use crate::fmt::Fmt;

#[derive(Clone, Copy, Debug, Default, PartialEq, Eq)]
pub struct PathInfo {
    pub fast: bool,
    pub disguised: bool,
    pub moderate_definite: bool,
    pub slow: bool,
    pub slow_negative: bool,
    pub beyond_max_digits: bool,
    pub many_digits: bool,
    pub slow_digits: u32,
    pub mantissa: u64,
    pub exponent: i32,
}

impl PathInfo {
    pub fn label(&self) -> &'static str {
        if self.fast {
            if self.disguised {
                "fast-disguised"
            } else {
                "fast"
            }
        } else if self.moderate_definite {
            if self.many_digits {
                "moderate-truncated"
            } else {
                "moderate"
            }
        } else if self.slow {
            match (self.slow_negative, self.beyond_max_digits) {
                (true, false) => "slow-negative",
                (true, true) => "slow-negative-maxdigits",
                (false, false) => "slow-positive",
                (false, true) => "slow-positive-maxdigits",
            }
        } else {
            "unclassified"
        }
    }
}

#[derive(Clone, Copy, Debug, PartialEq, Eq)]
pub struct Helpers {
    pub is_denormal: bool,
    pub exponent: i32,
    pub mantissa: u64,
    pub roundtrip: u64,
    pub b: (u64, i32),
    pub bh: (u64, i32),
}

#[derive(Clone, Copy, Debug, PartialEq, Eq)]
pub struct FloatConsts {
    pub max_digits: usize,
    pub mantissa_size: i32,
    pub exponent_bias: i32,
    pub infinite_power: i32,
    pub invalid_fp: i32,
    pub min_exp_fast: i32,
    pub max_exp_fast: i32,
    pub max_exp_disguised: i32,
    pub max_mantissa_fast: u64,
}

#[derive(Clone, Debug, PartialEq, Eq)]
pub enum BigOp {
    SmallAdd(u64),
    SmallMul(u64),
    LargeAddFrom(Vec<u64>, usize),
    LongMul(Vec<u64>),
    LargeMul(Vec<u64>),
    Pow5(u32),
    BigintPow(u32, u32),
    ShlBits(usize),
    ShlLimbs(usize),
    Shl(usize),
    Normalize,
    MulAssign(Vec<u64>),
    PowThenShl(u32, usize),
    MulSmallAddSmall(u64, u64),
}

#[derive(Clone, Debug, PartialEq, Eq)]
pub enum BigOut {
    Ok { limbs: Vec<u64>, len: usize, capacity: usize },
    Failed,
}

#[derive(Clone, Debug, PartialEq, Eq)]
pub enum VecOp {
    New,
    TryFrom(Vec<u64>),
    Push(u64),
    Pop,
    Extend(Vec<u64>),
    Resize(usize, u64),
    Normalize,
    AddSmall(u64),
    MulSmall(u64),
    CloneToB,
    /// b.clone_from(&a): overwrite an existing vector in place
    CloneFromA,
    /// a.clone_from(&b)
    CloneFromB,
    Swap,
    Write(usize, u64),
    FromU64(u64),
}

#[derive(Clone, Debug, PartialEq, Eq)]
pub struct VecObs {
    pub ret: i64,
    pub popped: Option<u64>,
    pub a: Vec<u64>,
    pub len: usize,
    pub is_empty: bool,
    pub capacity: usize,
    pub is_normalized: bool,
    pub hi64: (u64, bool),
    pub eq_ab: bool,
    pub cmp_ab: std::cmp::Ordering,
    pub partial_cmp_ab: Option<std::cmp::Ordering>,
    /// the comparison operators themselves: a != b, a < b, a <= b, a > b, a >= b
    pub ops_ab: [bool; 5],
    pub b: Vec<u64>,
}

/// The power constants a configuration exposes (C14).
#[derive(Clone, Debug, Default)]
pub struct Tables {
    pub pow5_128: Vec<(u64, u64)>,
    pub smallest_pow5: i32,
    pub largest_pow5: i32,
    pub small_int_pow5: Vec<u64>,
    pub small_int_pow10: Vec<u64>,
    pub small_f32_pow10: Vec<u32>,
    pub small_f64_pow10: Vec<u64>,
    pub large_pow5: Vec<u64>,
    pub large_pow5_step: u32,
    /// compute_error_scaled(q, 1<<63, 0).exp - INVALID_FP for every q (reveals `power(q)`)
    pub lemire_power: Vec<(i32, i32)>,
    pub bell_small: Vec<(u64, i32)>,
    pub bell_large: Vec<(u64, i32)>,
    pub bell_small_int: Vec<u64>,
    pub bell_step: i32,
    pub bell_bias: i32,
}

pub type ShapeFn = fn(&[u8], &[u8], i32, u32, u64) -> u64;
fn shapes_unset(_: &[u8], _: &[u8], _: i32, _: u32, _: u64) -> u64 {
    unreachable!()
}
pub const SHAPES_UNSET: ShapeFn = shapes_unset;

pub struct Cfg {
    pub name: &'static str,
    pub std: bool,
    pub compact: bool,
    pub alloc: bool,
    pub parse32: fn(&[u8], &[u8], i32) -> u64,
    pub parse64: fn(&[u8], &[u8], i32) -> u64,
    pub path32: fn(&[u8], &[u8], i32) -> PathInfo,
    pub path64: fn(&[u8], &[u8], i32) -> PathInfo,
    pub number_of: fn(&[u8], &[u8], i32) -> (u64, i32, bool),
    pub moderate32: fn(u64, i32, bool) -> (u64, i32),
    pub moderate64: fn(u64, i32, bool) -> (u64, i32),
    pub fast32: fn(u64, i32, bool) -> Option<u64>,
    pub fast64: fn(u64, i32, bool) -> Option<u64>,
    pub pack32: fn(u64, i32) -> u64,
    pub pack64: fn(u64, i32) -> u64,
    pub round32: fn(u64, i32, bool) -> (u64, i32),
    pub round64: fn(u64, i32, bool) -> (u64, i32),
    pub masks: fn(u32, u64) -> u64,
    pub hi64_helper: fn(u32, u64, u64, u64) -> (u64, bool),
    pub helpers32: fn(u64) -> Helpers,
    pub helpers64: fn(u64) -> Helpers,
    pub consts32: fn() -> FloatConsts,
    pub consts64: fn() -> FloatConsts,
    pub pow_fast32: fn(usize) -> u64,
    pub pow_fast64: fn(usize) -> u64,
    pub big_apply: fn(&[u64], &BigOp) -> BigOut,
    pub big_observe: fn(&[u64]) -> Option<(bool, u32, (u64, bool), u32)>,
    pub big_compare: fn(&[u64], &[u64]) -> std::cmp::Ordering,
    pub bigint_from_u64: fn(u64) -> Vec<u64>,
    pub vec_history: fn(&[VecOp], u64) -> Vec<VecObs>,
    pub slow_parse_mantissa: fn(&[u8], &[u8], usize) -> (Vec<u64>, usize),
    pub tables: fn() -> Tables,
    /// bundled libm pow(10, e) as (f32 bits, f64 bits), only in no_std+compact
    pub libm_pow: fn(u32) -> Option<(u32, u64)>,
    pub shapes32: ShapeFn,
    pub shapes64: ShapeFn,
    pub parse_sep32: fn(&[u8], &[u8], i32) -> u64,
    pub parse_sep64: fn(&[u8], &[u8], i32) -> u64,
}

impl Cfg {
    pub fn parse(&self, fmt: Fmt, int: &[u8], frac: &[u8], exp: i32) -> u64 {
        match fmt {
            Fmt::F32 => (self.parse32)(int, frac, exp),
            Fmt::F64 => (self.parse64)(int, frac, exp),
        }
    }
    /// Coverage accounting only: never lets a panic of the code under test escape
    /// (a panicking path classifies as "unclassified").
    pub fn path(&self, fmt: Fmt, int: &[u8], frac: &[u8], exp: i32) -> PathInfo {
        crate::guard::catch(|| match fmt {
            Fmt::F32 => (self.path32)(int, frac, exp),
            Fmt::F64 => (self.path64)(int, frac, exp),
        })
        .unwrap_or_default()
    }
    pub fn moderate(&self, fmt: Fmt, w: u64, q: i32, t: bool) -> (u64, i32) {
        match fmt {
            Fmt::F32 => (self.moderate32)(w, q, t),
            Fmt::F64 => (self.moderate64)(w, q, t),
        }
    }
    pub fn fast(&self, fmt: Fmt, w: u64, q: i32, t: bool) -> Option<u64> {
        match fmt {
            Fmt::F32 => (self.fast32)(w, q, t),
            Fmt::F64 => (self.fast64)(w, q, t),
        }
    }
    pub fn pack(&self, fmt: Fmt, mant: u64, exp: i32) -> u64 {
        match fmt {
            Fmt::F32 => (self.pack32)(mant, exp),
            Fmt::F64 => (self.pack64)(mant, exp),
        }
    }
    pub fn round(&self, fmt: Fmt, mant: u64, exp: i32, nearest: bool) -> (u64, i32) {
        match fmt {
            Fmt::F32 => (self.round32)(mant, exp, nearest),
            Fmt::F64 => (self.round64)(mant, exp, nearest),
        }
    }
    pub fn helpers(&self, fmt: Fmt, bits: u64) -> Helpers {
        match fmt {
            Fmt::F32 => (self.helpers32)(bits),
            Fmt::F64 => (self.helpers64)(bits),
        }
    }
    pub fn consts(&self, fmt: Fmt) -> FloatConsts {
        match fmt {
            Fmt::F32 => (self.consts32)(),
            Fmt::F64 => (self.consts64)(),
        }
    }
}

macro_rules! cfg_mod {
    ($m:ident, $krate:ident, $name:expr, $std:expr, $compact:expr, $alloc:expr, $tables:literal, $libm:literal) => {
        pub mod $m {
            #![allow(dead_code, unused_imports)]
            use $krate as ml;
            pub const NAME: &str = $name;
            pub const STD: bool = $std;
            pub const COMPACT: bool = $compact;
            pub const ALLOC: bool = $alloc;
            include!($tables);
            include!($libm);
            include!("cfgmod.rs");
        }
    };
}

cfg_mod!(m_default, ml_default, "default", true, false, false, "cfgmod_lemire.rs", "cfgmod_nolibm.rs");
cfg_mod!(m_compact, ml_compact, "compact", true, true, false, "cfgmod_compact.rs", "cfgmod_nolibm.rs");
cfg_mod!(m_alloc, ml_alloc, "alloc", true, false, true, "cfgmod_lemire.rs", "cfgmod_nolibm.rs");
cfg_mod!(m_compact_alloc, ml_compact_alloc, "compact+alloc", true, true, true, "cfgmod_compact.rs", "cfgmod_nolibm.rs");
cfg_mod!(m_nostd, ml_nostd, "no_std", false, false, false, "cfgmod_lemire.rs", "cfgmod_nolibm.rs");
cfg_mod!(m_nostd_alloc, ml_nostd_alloc, "no_std+alloc", false, false, true, "cfgmod_lemire.rs", "cfgmod_nolibm.rs");
cfg_mod!(m_nostd_compact, ml_nostd_compact, "no_std+compact", false, true, false, "cfgmod_compact.rs", "cfgmod_libm.rs");
cfg_mod!(m_nostd_compact_alloc, ml_nostd_compact_alloc, "no_std+compact+alloc", false, true, true, "cfgmod_compact.rs", "cfgmod_libm.rs");

pub static CFGS: [Cfg; 8] = [
    m_default::CFG,
    m_compact::CFG,
    m_alloc::CFG,
    m_compact_alloc::CFG,
    m_nostd::CFG,
    m_nostd_alloc::CFG,
    m_nostd_compact::CFG,
    m_nostd_compact_alloc::CFG,
];

pub fn default_cfg() -> &'static Cfg {
    &CFGS[0]
}
pub fn compact_cfg() -> &'static Cfg {
    &CFGS[1]
}

// ---------------------------------------------------------------------------
// Allocation probe (C15 over the big-integer API): the harness binary registers its allocation counter; the
// per-configuration `big_apply` reads it immediately before and after the library call (operands are converted
// outside that window) and leaves the difference here.

static ALLOC_PROBE: std::sync::OnceLock<fn() -> u64> = std::sync::OnceLock::new();

thread_local! {
    static LAST_OP_ALLOCS: std::cell::Cell<u64> = const { std::cell::Cell::new(0) };
}

pub fn set_alloc_probe(f: fn() -> u64) {
    let _ = ALLOC_PROBE.set(f);
}

#[inline]
pub fn probe_allocs() -> u64 {
    match ALLOC_PROBE.get() {
        Some(f) => f(),
        None => 0,
    }
}

pub fn set_last_op_allocs(n: u64) {
    LAST_OP_ALLOCS.with(|c| c.set(n));
}

/// Heap allocations performed by the library during the last `big_apply` on this thread.
pub fn last_op_allocs() -> u64 {
    LAST_OP_ALLOCS.with(|c| c.get())
}
