//! The code under test as the harness sees it: all 8 feature configurations
//! of minimal-lexical (shim crates) behind uniform function tables, and the
//! repository's string front-end copies compiled from the repository sources.

pub mod cfgs;
pub mod fmt;
pub mod fronts;
pub mod guard;

pub use fmt::Fmt;
