//! The code under test as the harness sees it: all 8 feature configurations
//! of minimal-lexical (shim crates) behind uniform function tables, and the
//! repository's string front-end copies compiled from the repository sources.

pub mod cfgs;
pub mod fmt;
pub mod fronts;
pub mod guard;

pub use fmt::Fmt;

/// The default and the compact configuration built WITHOUT the `verif` hook feature, i.e. exactly as a user of
/// the crate builds them: parse only (no path classification).  Index 0 = default, 1 = compact.
pub mod plain {
    pub const NAMES: [&str; 2] = ["default (no verif feature)", "compact (no verif feature)"];
    pub fn parse32(which: usize, int: &[u8], frac: &[u8], exp: i32) -> u64 {
        (if which == 0 { ml_default_plain::parse_float::<f32, _, _>(int.iter(), frac.iter(), exp) } else { ml_compact_plain::parse_float::<f32, _, _>(int.iter(), frac.iter(), exp) }).to_bits() as u64
    }
    pub fn parse64(which: usize, int: &[u8], frac: &[u8], exp: i32) -> u64 {
        (if which == 0 { ml_default_plain::parse_float::<f64, _, _>(int.iter(), frac.iter(), exp) } else { ml_compact_plain::parse_float::<f64, _, _>(int.iter(), frac.iter(), exp) }).to_bits()
    }
}
