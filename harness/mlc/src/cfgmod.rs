// Included once per shim crate (feature configuration).  The including module
// provides `use <shim> as ml;` and the constants NAME, STD, COMPACT, ALLOC.

use ml::extended_float::{extended_to_float, ExtendedFloat};
use ml::number::Number;
use ml::Float;

use crate::cfgs::{Cfg, PathInfo};

fn bytes_ok(int: &[u8], frac: &[u8]) -> bool {
    int.iter().chain(frac.iter()).all(|c| c.is_ascii_digit())
}

fn parse_g<F: Float>(int: &[u8], frac: &[u8], exp: i32) -> u64 {
    ml::parse_float::<F, _, _>(int.iter(), frac.iter(), exp).to_bits()
}

fn parse32(int: &[u8], frac: &[u8], exp: i32) -> u64 {
    parse_g::<f32>(int, frac, exp)
}

fn parse64(int: &[u8], frac: &[u8], exp: i32) -> u64 {
    parse_g::<f64>(int, frac, exp)
}

/// Which internal path the real code takes (coverage accounting only; no
/// verdict depends on it).  Only meaningful for valid digit input.
fn path_g<F: Float>(int: &[u8], frac: &[u8], exp: i32) -> PathInfo {
    let mut p = PathInfo::default();
    if !bytes_ok(int, frac) {
        return p;
    }
    let num: Number = ml::parse::verif_parse_number(int.iter(), frac.iter(), exp);
    p.mantissa = num.mantissa;
    p.exponent = num.exponent;
    p.many_digits = num.many_digits;
    if num.try_fast_path::<F>().is_some() {
        p.fast = true;
        p.disguised = num.exponent > F::MAX_EXPONENT_FAST_PATH;
        return p;
    }
    let fp = ml::parse::moderate_path::<F>(&num);
    if fp.exp >= 0 {
        p.moderate_definite = true;
        return p;
    }
    p.slow = true;
    let sci = ml::slow::scientific_exponent(&num);
    let (_, digits) = ml::slow::parse_mantissa(int.iter(), frac.iter(), F::MAX_DIGITS);
    p.slow_digits = digits as u32;
    p.slow_negative = (sci + 1 - digits as i32) < 0;
    p.beyond_max_digits = digits > F::MAX_DIGITS;
    p
}

fn path32(int: &[u8], frac: &[u8], exp: i32) -> PathInfo {
    path_g::<f32>(int, frac, exp)
}

fn path64(int: &[u8], frac: &[u8], exp: i32) -> PathInfo {
    path_g::<f64>(int, frac, exp)
}

fn number_of(int: &[u8], frac: &[u8], exp: i32) -> (u64, i32, bool) {
    let num: Number = ml::parse::verif_parse_number(int.iter(), frac.iter(), exp);
    (num.mantissa, num.exponent, num.many_digits)
}

/// The extended-precision middle stage, called directly (C11).
fn moderate_g<F: Float>(w: u64, q: i32, t: bool) -> (u64, i32) {
    let num = Number {
        mantissa: w,
        exponent: q,
        many_digits: t,
    };
    let fp = ml::parse::moderate_path::<F>(&num);
    (fp.mant, fp.exp)
}

fn moderate32(w: u64, q: i32, t: bool) -> (u64, i32) {
    moderate_g::<f32>(w, q, t)
}

fn moderate64(w: u64, q: i32, t: bool) -> (u64, i32) {
    moderate_g::<f64>(w, q, t)
}

fn fast_g<F: Float>(w: u64, q: i32, t: bool) -> Option<u64> {
    let num = Number {
        mantissa: w,
        exponent: q,
        many_digits: t,
    };
    num.try_fast_path::<F>().map(|f| f.to_bits())
}

fn fast32(w: u64, q: i32, t: bool) -> Option<u64> {
    fast_g::<f32>(w, q, t)
}

fn fast64(w: u64, q: i32, t: bool) -> Option<u64> {
    fast_g::<f64>(w, q, t)
}

fn pack_g<F: Float>(mant: u64, exp: i32) -> u64 {
    extended_to_float::<F>(ExtendedFloat {
        mant,
        exp,
    })
    .to_bits()
}

fn pack32(mant: u64, exp: i32) -> u64 {
    pack_g::<f32>(mant, exp)
}

fn pack64(mant: u64, exp: i32) -> u64 {
    pack_g::<f64>(mant, exp)
}

/// The shift-and-round primitive (C18): returns the (mant, exp) fields.
fn round_g<F: Float>(mant: u64, exp: i32, nearest: bool) -> (u64, i32) {
    let mut fp = ExtendedFloat {
        mant,
        exp,
    };
    if nearest {
        ml::rounding::round::<F, _>(&mut fp, |f, s| {
            ml::rounding::round_nearest_tie_even(f, s, |is_odd, is_halfway, is_above| {
                is_above || (is_odd && is_halfway)
            });
        });
    } else {
        ml::rounding::round::<F, _>(&mut fp, ml::rounding::round_down);
    }
    (fp.mant, fp.exp)
}

fn round32(mant: u64, exp: i32, nearest: bool) -> (u64, i32) {
    round_g::<f32>(mant, exp, nearest)
}

fn round64(mant: u64, exp: i32, nearest: bool) -> (u64, i32) {
    round_g::<f64>(mant, exp, nearest)
}

/// The five "shift into the high 64 bits" helpers of bigint.rs, callable on every target
/// (which: 0 = u32x1, 1 = u32x2, 2 = u32x3, 3 = u64x1, 4 = u64x2; most significant word first).
fn hi64_helper(which: u32, r0: u64, r1: u64, r2: u64) -> (u64, bool) {
    match which {
        0 => ml::bigint::u32_to_hi64_1(r0 as u32),
        1 => ml::bigint::u32_to_hi64_2(r0 as u32, r1 as u32),
        2 => ml::bigint::u32_to_hi64_3(r0 as u32, r1 as u32, r2 as u32),
        3 => ml::bigint::u64_to_hi64_1(r0),
        _ => ml::bigint::u64_to_hi64_2(r0, r1),
    }
}

fn masks(which: u32, n: u64) -> u64 {
    match which {
        0 => ml::mask::lower_n_mask(n),
        1 => ml::mask::lower_n_halfway(n),
        _ => ml::mask::nth_bit(n),
    }
}

/// Float helper decomposition (C17): (is_denormal, exponent, mantissa,
/// to_bits(from_bits(bits)), b.mant, b.exp, bh.mant, bh.exp)
fn helpers_g<F: Float>(bits: u64) -> crate::cfgs::Helpers {
    let f = F::from_bits(bits);
    let b = ml::slow::b(f);
    let bh = ml::slow::bh(f);
    crate::cfgs::Helpers {
        is_denormal: f.is_denormal(),
        exponent: f.exponent(),
        mantissa: f.mantissa(),
        roundtrip: f.to_bits(),
        b: (b.mant, b.exp),
        bh: (bh.mant, bh.exp),
    }
}

fn helpers32(bits: u64) -> crate::cfgs::Helpers {
    helpers_g::<f32>(bits)
}

fn helpers64(bits: u64) -> crate::cfgs::Helpers {
    helpers_g::<f64>(bits)
}

fn consts_g<F: Float>() -> crate::cfgs::FloatConsts {
    crate::cfgs::FloatConsts {
        max_digits: F::MAX_DIGITS,
        mantissa_size: F::MANTISSA_SIZE,
        exponent_bias: F::EXPONENT_BIAS,
        infinite_power: F::INFINITE_POWER,
        invalid_fp: F::INVALID_FP,
        min_exp_fast: F::MIN_EXPONENT_FAST_PATH,
        max_exp_fast: F::MAX_EXPONENT_FAST_PATH,
        max_exp_disguised: F::MAX_EXPONENT_DISGUISED_FAST_PATH,
        max_mantissa_fast: F::MAX_MANTISSA_FAST_PATH,
    }
}

fn consts32() -> crate::cfgs::FloatConsts {
    consts_g::<f32>()
}

fn consts64() -> crate::cfgs::FloatConsts {
    consts_g::<f64>()
}

fn pow_fast32(e: usize) -> u64 {
    assert!(e <= 10);
    // SAFETY: e is within the documented table size.
    unsafe { <f32 as Float>::pow_fast_path(e) }.to_bits() as u64
}

fn pow_fast64(e: usize) -> u64 {
    assert!(e <= 22);
    // SAFETY: e is within the documented table size.
    unsafe { <f64 as Float>::pow_fast_path(e) }.to_bits()
}


// ---------------------------------------------------------------------------
// big-integer operations (C12) and vector histories (C13)

use crate::cfgs::{BigOp, BigOut, VecObs, VecOp};
use ml::bigint::{self, Bigint, Limb, VecType};

// The harness describes big integers as little-endian u64 limbs.  On targets where the crate uses
// 32-bit limbs (exercised under Miri with --target i686) they are converted value-preservingly:
// each u64 becomes two u32 limbs, and the top limb's zero high half is dropped so that a normalised
// number stays normalised.
#[cfg(all(target_pointer_width = "64", not(target_arch = "sparc")))]
fn to_limbs(x: &[u64]) -> Vec<Limb> {
    x.to_vec()
}

#[cfg(all(target_pointer_width = "64", not(target_arch = "sparc")))]
fn from_limbs(x: &[Limb]) -> Vec<u64> {
    x.to_vec()
}

#[cfg(not(all(target_pointer_width = "64", not(target_arch = "sparc"))))]
fn to_limbs(x: &[u64]) -> Vec<Limb> {
    let mut out: Vec<Limb> = Vec::with_capacity(2 * x.len());
    for &l in x {
        out.push(l as Limb);
        out.push((l >> 32) as Limb);
    }
    if let Some(&top) = x.last() {
        if top >> 32 == 0 && top != 0 {
            out.pop();
        }
    }
    out
}

#[cfg(not(all(target_pointer_width = "64", not(target_arch = "sparc"))))]
fn from_limbs(x: &[Limb]) -> Vec<u64> {
    x.chunks(2).map(|c| c[0] as u64 | (c.get(1).copied().unwrap_or(0) as u64) << 32).collect()
}

/// Native limbs per 64-bit limb of the harness model.
const RATIO: usize = 64 / bigint::LIMB_BITS;

/// One model element = one native limb (vector histories, C13).
fn to_native(x: &[u64]) -> Vec<Limb> {
    x.iter().map(|&l| l as Limb).collect()
}

fn from_native(x: &[Limb]) -> Vec<u64> {
    x.iter().map(|&l| l as u64).collect()
}

fn vec_from(x: &[u64]) -> Option<VecType> {
    VecType::try_from(&to_limbs(x))
}

/// Apply one big-integer operation to the number with limbs `x` (little endian).
/// `None` = the operation reported failure.
fn big_apply(x: &[u64], op: &BigOp) -> BigOut {
    let mut v = match vec_from(x) {
        Some(v) => v,
        None => return BigOut::Failed,
    };
    // operands are converted before the measured window
    let xl = to_limbs(x);
    let yl: Vec<Limb> = match op {
        BigOp::LargeAddFrom(y, _) | BigOp::LongMul(y) | BigOp::LargeMul(y) => to_limbs(y),
        _ => Vec::new(),
    };
    let rhs: Option<Bigint> = match op {
        BigOp::MulAssign(y) => match vec_from(y) {
            Some(d) => Some(Bigint {
                data: d,
            }),
            None => return BigOut::Failed,
        },
        _ => None,
    };
    let allocs_before = crate::cfgs::probe_allocs();
    let r: Option<()> = match op {
        BigOp::SmallAdd(y) => bigint::small_add(&mut v, *y as Limb),
        BigOp::SmallMul(y) => bigint::small_mul(&mut v, *y as Limb),
        BigOp::LargeAddFrom(_, start) => {
            if *start == 0 {
                bigint::large_add(&mut v, &yl)
            } else {
                bigint::large_add_from(&mut v, &yl, *start * RATIO)
            }
        }
        BigOp::LongMul(_) => match bigint::long_mul(&xl, &yl) {
            Some(z) => {
                v = z;
                Some(())
            }
            None => None,
        },
        BigOp::LargeMul(_) => bigint::large_mul(&mut v, &yl),
        BigOp::Pow5(e) => bigint::pow(&mut v, *e),
        BigOp::BigintPow(base, e) => {
            let mut b = Bigint {
                data: v.clone(),
            };
            let r = b.pow(*base, *e);
            v = b.data;
            r
        }
        BigOp::ShlBits(n) => bigint::shl_bits(&mut v, *n),
        BigOp::ShlLimbs(n) => bigint::shl_limbs(&mut v, n.saturating_mul(RATIO)),
        BigOp::Shl(n) => bigint::shl(&mut v, *n),
        BigOp::Normalize => {
            bigint::normalize(&mut v);
            Some(())
        }
        BigOp::MulAssign(_) => {
            // `*=` unwraps internally: a capacity failure is a clean panic
            let mut b = Bigint {
                data: v.clone(),
            };
            b *= rhs.as_ref().unwrap();
            v = b.data;
            Some(())
        }
        BigOp::PowThenShl(e5, e2) => {
            // the chain the parser uses: pow(10, e) = pow5 then shl
            match bigint::pow(&mut v, *e5) {
                Some(()) => bigint::shl(&mut v, *e2),
                None => None,
            }
        }
        BigOp::MulSmallAddSmall(m, a) => match v.mul_small(*m as Limb) {
            Some(()) => v.add_small(*a as Limb),
            None => None,
        },
    };
    crate::cfgs::set_last_op_allocs(crate::cfgs::probe_allocs() - allocs_before);
    match r {
        Some(()) => BigOut::Ok {
            limbs: from_limbs(&v),
            len: v.len(),
            capacity: v.capacity(),
        },
        None => BigOut::Failed,
    }
}

/// Observers: (is_normalized, bit_length, hi64, leading_zeros)
fn big_observe(x: &[u64]) -> Option<(bool, u32, (u64, bool), u32)> {
    let v = vec_from(x)?;
    Some((bigint::is_normalized(&v), bigint::bit_length(&v), bigint::hi64(&v), bigint::leading_zeros(&v)))
}

fn big_compare(x: &[u64], y: &[u64]) -> core::cmp::Ordering {
    bigint::compare(&to_limbs(x), &to_limbs(y))
}

fn bigint_from_u64(v: u64) -> Vec<u64> {
    let b = Bigint::from_u64(v);
    let (hi, trunc) = b.hi64();
    let mut out = from_limbs(&b.data);
    // append observers so the caller can check them too
    out.push(hi);
    out.push(trunc as u64);
    out.push(b.bit_length() as u64);
    out
}

#[inline(never)]
fn poison_stack(pattern: u64) -> u64 {
    let mut a = [0u64; 2048];
    for (i, x) in a.iter_mut().enumerate() {
        *x = pattern.wrapping_add(i as u64) | 1;
    }
    let a = core::hint::black_box(a);
    a[(pattern % 2048) as usize]
}

fn observe_pair(ret: i64, a: &VecType, b: &VecType) -> VecObs {
    VecObs {
        ret,
        popped: None,
        a: from_native(a),
        len: a.len(),
        is_empty: a.is_empty(),
        capacity: a.capacity(),
        is_normalized: a.is_normalized(),
        hi64: if a.is_normalized() { a.hi64() } else { (0, false) },
        eq_ab: a == b,
        cmp_ab: a.cmp(b),
        partial_cmp_ab: a.partial_cmp(b),
        ops_ab: [a != b, a < b, a <= b, a > b, a >= b],
        b: from_native(b),
    }
}

/// Interpret a history over the safe vector API; one observation per step.
#[inline(never)]
fn vec_history(ops: &[VecOp], poison: u64) -> Vec<VecObs> {
    core::hint::black_box(poison_stack(poison));
    vec_history_inner(ops)
}

#[inline(never)]
fn vec_history_inner(ops: &[VecOp]) -> Vec<VecObs> {
    let mut a = VecType::new();
    let mut b = VecType::new();
    let mut out = Vec::with_capacity(ops.len() + 1);
    out.push(observe_pair(1, &a, &b));
    for op in ops {
        // ret: 1 = Some/true, 0 = None/false
        let mut popped: Option<u64> = None;
        let ret: i64 = match op {
            VecOp::New => {
                a = VecType::new();
                1
            }
            VecOp::TryFrom(x) => match VecType::try_from(&to_native(x)) {
                Some(v) => {
                    a = v;
                    1
                }
                None => 0,
            },
            VecOp::Push(x) => a.try_push(*x as Limb).is_some() as i64,
            VecOp::Pop => {
                popped = a.pop().map(|l| l as u64);
                popped.is_some() as i64
            }
            VecOp::Extend(x) => a.try_extend(&to_native(x)).is_some() as i64,
            VecOp::Resize(n, v) => a.try_resize(*n, *v as Limb).is_some() as i64,
            VecOp::Normalize => {
                a.normalize();
                1
            }
            VecOp::AddSmall(y) => a.add_small(*y as Limb).is_some() as i64,
            VecOp::MulSmall(y) => a.mul_small(*y as Limb).is_some() as i64,
            VecOp::CloneToB => {
                b = a.clone();
                1
            }
            VecOp::CloneFromA => {
                b.clone_from(&a);
                1
            }
            VecOp::CloneFromB => {
                a.clone_from(&b);
                1
            }
            VecOp::Swap => {
                core::mem::swap(&mut a, &mut b);
                1
            }
            VecOp::Write(i, v) => {
                let n = a.len();
                if n > 0 {
                    let idx = *i % n;
                    a[idx] = *v as Limb;
                }
                1
            }
            VecOp::FromU64(v) => {
                a = VecType::from_u64(*v);
                1
            }
        };
        let mut o = observe_pair(ret, &a, &b);
        o.popped = popped;
        out.push(o);
    }
    out
}

fn slow_parse_mantissa(int: &[u8], frac: &[u8], max_digits: usize) -> (Vec<u64>, usize) {
    let (b, n) = ml::slow::parse_mantissa(int.iter(), frac.iter(), max_digits);
    (from_limbs(&b.data), n)
}


// ---------------------------------------------------------------------------
// iterator shapes yielding the same byte sequence (C16)

#[derive(Clone)]
struct ChunkIter<'a> {
    chunks: &'a [Vec<u8>],
    ci: usize,
    bi: usize,
}

impl<'a> Iterator for ChunkIter<'a> {
    type Item = &'a u8;
    fn next(&mut self) -> Option<&'a u8> {
        while self.ci < self.chunks.len() {
            let c = &self.chunks[self.ci];
            if self.bi < c.len() {
                self.bi += 1;
                return Some(&c[self.bi - 1]);
            }
            self.ci += 1;
            self.bi = 0;
        }
        None
    }
}

fn chunks_of(b: &[u8], salt: u64) -> Vec<Vec<u8>> {
    let mut out = Vec::new();
    let mut s = salt | 1;
    let mut i = 0;
    while i < b.len() {
        s = s.wrapping_mul(6364136223846793005).wrapping_add(1442695040888963407);
        let n = (1 + (s >> 33) % 23) as usize;
        let n = n.min(b.len() - i);
        out.push(b[i..i + n].to_vec());
        if (s >> 20) % 5 == 0 {
            out.push(Vec::new()); // empty chunk in the middle
        }
        i += n;
    }
    out
}

pub const SHAPE_NAMES: [&str; 10] =
    ["slice", "chain-2", "chain-4", "filter-separators", "vecdeque-wrapped", "rev-of-reversed", "skip-take-padded", "step_by-2", "custom-chunk-list", "flat_map-chunks+single-byte-arrays"];

fn shapes_g<F: Float>(int: &[u8], frac: &[u8], exp: i32, shape: u32, salt: u64) -> u64 {
    use std::collections::VecDeque;
    match shape {
        0 => ml::parse_float::<F, _, _>(int.iter(), frac.iter(), exp).to_bits(),
        1 => {
            let (a, b) = int.split_at((salt as usize) % (int.len() + 1));
            let (c, d) = frac.split_at((salt as usize >> 8) % (frac.len() + 1));
            ml::parse_float::<F, _, _>(a.iter().chain(b.iter()), c.iter().chain(d.iter()), exp).to_bits()
        }
        2 => {
            let cut = |s: &[u8], k: u64| -> [usize; 3] {
                let n = s.len() + 1;
                let mut c = [(k as usize) % n, (k as usize >> 7) % n, (k as usize >> 14) % n];
                c.sort_unstable();
                c
            };
            let ci = cut(int, salt);
            let cf = cut(frac, salt >> 21);
            let i = int[..ci[0]].iter().chain(int[ci[0]..ci[1]].iter()).chain(int[ci[1]..ci[2]].iter()).chain(int[ci[2]..].iter());
            let f = frac[..cf[0]].iter().chain(frac[cf[0]..cf[1]].iter()).chain(frac[cf[1]..cf[2]].iter()).chain(frac[cf[2]..].iter());
            ml::parse_float::<F, _, _>(i, f, exp).to_bits()
        }
        3 => {
            let sep = |s: &[u8], k: u64| -> Vec<u8> {
                let mut out = Vec::with_capacity(s.len() * 2 + 2);
                let mut x = k | 1;
                out.push(b'_');
                for &c in s {
                    out.push(c);
                    x = x.wrapping_mul(6364136223846793005).wrapping_add(1);
                    for _ in 0..((x >> 40) % 3) {
                        out.push(b'_');
                    }
                }
                out
            };
            let (bi, bf) = (sep(int, salt), sep(frac, salt >> 13));
            ml::parse_float::<F, _, _>(bi.iter().filter(|&&c| c != b'_'), bf.iter().filter(|&&c| c != b'_'), exp).to_bits()
        }
        4 => {
            let dq = |s: &[u8], k: u64| -> VecDeque<u8> {
                // force a wrapped (two-slice) layout
                let mut d: VecDeque<u8> = VecDeque::with_capacity(s.len() + 8);
                let pre = 1 + (k as usize) % 7;
                for _ in 0..pre {
                    d.push_back(b'#');
                }
                let half = s.len() / 2;
                for &c in &s[half..] {
                    d.push_back(c);
                }
                for _ in 0..pre {
                    d.pop_front();
                }
                for &c in s[..half].iter().rev() {
                    d.push_front(c);
                }
                d
            };
            let (di, df) = (dq(int, salt), dq(frac, salt >> 9));
            ml::parse_float::<F, _, _>(di.iter(), df.iter(), exp).to_bits()
        }
        5 => {
            let ri: Vec<u8> = int.iter().rev().copied().collect();
            let rf: Vec<u8> = frac.iter().rev().copied().collect();
            ml::parse_float::<F, _, _>(ri.iter().rev(), rf.iter().rev(), exp).to_bits()
        }
        6 => {
            let pad = |s: &[u8], k: u64| -> (Vec<u8>, usize) {
                let p = (k % 17) as usize;
                let mut v = vec![b'9'; p];
                v.extend_from_slice(s);
                v.extend_from_slice(b"12345");
                (v, p)
            };
            let ((vi, pi), (vf, pf)) = (pad(int, salt), pad(frac, salt >> 11));
            ml::parse_float::<F, _, _>(vi.iter().skip(pi).take(int.len()), vf.iter().skip(pf).take(frac.len()), exp).to_bits()
        }
        7 => {
            let inter = |s: &[u8]| -> Vec<u8> {
                let mut v = Vec::with_capacity(s.len() * 2);
                for &c in s {
                    v.push(c);
                    v.push(b'7');
                }
                v
            };
            let (vi, vf) = (inter(int), inter(frac));
            // step_by(2) keeps indices 0, 2, 4, ...: exactly the original bytes
            ml::parse_float::<F, _, _>(vi.iter().step_by(2).take(int.len()), vf.iter().step_by(2).take(frac.len()), exp).to_bits()
        }
        8 => {
            let (ci, cf) = (chunks_of(int, salt), chunks_of(frac, salt >> 17));
            let i = ChunkIter {
                chunks: &ci,
                ci: 0,
                bi: 0,
            };
            let f = ChunkIter {
                chunks: &cf,
                ci: 0,
                bi: 0,
            };
            ml::parse_float::<F, _, _>(i, f, exp).to_bits()
        }
        9 => {
            let ci = chunks_of(int, salt);
            let singles: Vec<[u8; 1]> = frac.iter().map(|&c| [c]).collect();
            ml::parse_float::<F, _, _>(ci.iter().flat_map(|c| c.iter()), singles.iter().map(|a| &a[0]), exp).to_bits()
        }
        13 => {
            // the cursor lives behind a pointer: Box<slice::Iter> (Clone is a deep copy; a bitwise copy of the
            // iterator would share the cursor)
            ml::parse_float::<F, _, _>(Box::new(int.iter()), Box::new(frac.iter()), exp).to_bits()
        }
        14 => {
            // a rope-like iterator whose position is kept in a heap-allocated vector of cursors
            let (ci, cf) = (chunks_of(int, salt), chunks_of(frac, salt >> 17));
            let i = RopeIter { chunks: &ci, pos: vec![0usize, 0usize] };
            let f = RopeIter { chunks: &cf, pos: vec![0usize, 0usize] };
            ml::parse_float::<F, _, _>(i, f, exp).to_bits()
        }
        11 => {
            // a wide iterator type: a chain of six slice iterators (well over 64 bytes), cut at generated points
            let cut = |s: &[u8], k: u64| -> [usize; 5] {
                let n = s.len() + 1;
                let mut c = [(k as usize) % n, (k as usize >> 5) % n, (k as usize >> 10) % n, (k as usize >> 15) % n, (k as usize >> 20) % n];
                c.sort_unstable();
                c
            };
            let (a, b) = (cut(int, salt), cut(frac, salt >> 25));
            let i = int[..a[0]].iter().chain(int[a[0]..a[1]].iter()).chain(int[a[1]..a[2]].iter()).chain(int[a[2]..a[3]].iter()).chain(int[a[3]..a[4]].iter()).chain(int[a[4]..].iter());
            let f = frac[..b[0]].iter().chain(frac[b[0]..b[1]].iter()).chain(frac[b[1]..b[2]].iter()).chain(frac[b[2]..b[3]].iter()).chain(frac[b[3]..b[4]].iter()).chain(frac[b[4]..].iter());
            ml::parse_float::<F, _, _>(i, f, exp).to_bits()
        }
        12 => {
            // a fat custom iterator (256 bytes of state that cloning has to copy)
            let i = FatIter { inner: int.iter(), ballast: [salt; 30] };
            let f = FatIter { inner: frac.iter(), ballast: [!salt; 30] };
            ml::parse_float::<F, _, _>(i, f, exp).to_bits()
        }
        _ => {
            // every item is a reference into one shared table: equal digits have equal addresses (a
            // run-length-decoded or table-mapped front-end yields exactly this); for valid input only
            static DIGIT_TABLE: [u8; 10] = [b'0', b'1', b'2', b'3', b'4', b'5', b'6', b'7', b'8', b'9'];
            if int.iter().chain(frac.iter()).all(|c| c.is_ascii_digit()) {
                let f = |c: &u8| &DIGIT_TABLE[(*c - b'0') as usize];
                ml::parse_float::<F, _, _>(int.iter().map(f), frac.iter().map(f), exp).to_bits()
            } else {
                ml::parse_float::<F, _, _>(int.iter(), frac.iter(), exp).to_bits()
            }
        }
    }
}

/// Chunk-list iterator with its two cursors (chunk index, byte index) in a Vec.
#[derive(Clone)]
struct RopeIter<'a> {
    chunks: &'a [Vec<u8>],
    pos: Vec<usize>,
}

impl<'a> Iterator for RopeIter<'a> {
    type Item = &'a u8;
    fn next(&mut self) -> Option<&'a u8> {
        while self.pos[0] < self.chunks.len() {
            let c = &self.chunks[self.pos[0]];
            if self.pos[1] < c.len() {
                self.pos[1] += 1;
                return Some(&c[self.pos[1] - 1]);
            }
            self.pos[0] += 1;
            self.pos[1] = 0;
        }
        None
    }
}

#[derive(Clone)]
struct FatIter<'a> {
    inner: core::slice::Iter<'a, u8>,
    ballast: [u64; 30],
}

impl<'a> Iterator for FatIter<'a> {
    type Item = &'a u8;
    fn next(&mut self) -> Option<&'a u8> {
        core::hint::black_box(&self.ballast);
        self.inner.next()
    }
    fn size_hint(&self) -> (usize, Option<usize>) {
        self.inner.size_hint()
    }
}

/// Parse through `filter` iterators over caller-provided buffers that contain `_` separators
/// (no allocation in the harness: used by the allocation-counting check).
fn parse_sep_g<F: Float>(int: &[u8], frac: &[u8], exp: i32) -> u64 {
    ml::parse_float::<F, _, _>(int.iter().filter(|&&c| c != b'_'), frac.iter().filter(|&&c| c != b'_'), exp).to_bits()
}

fn parse_sep32(int: &[u8], frac: &[u8], exp: i32) -> u64 {
    parse_sep_g::<f32>(int, frac, exp)
}

fn parse_sep64(int: &[u8], frac: &[u8], exp: i32) -> u64 {
    parse_sep_g::<f64>(int, frac, exp)
}

fn shapes32(int: &[u8], frac: &[u8], exp: i32, shape: u32, salt: u64) -> u64 {
    shapes_g::<f32>(int, frac, exp, shape, salt)
}

fn shapes64(int: &[u8], frac: &[u8], exp: i32, shape: u32, salt: u64) -> u64 {
    shapes_g::<f64>(int, frac, exp, shape, salt)
}

pub const CFG: Cfg = Cfg {
    name: NAME,
    std: STD,
    compact: COMPACT,
    alloc: ALLOC,
    parse32,
    parse64,
    path32,
    path64,
    number_of,
    moderate32,
    moderate64,
    fast32,
    fast64,
    pack32,
    pack64,
    round32,
    round64,
    masks,
    hi64_helper,
    helpers32,
    helpers64,
    consts32,
    consts64,
    pow_fast32,
    pow_fast64,
    big_apply,
    big_observe,
    big_compare,
    bigint_from_u64,
    vec_history,
    slow_parse_mantissa,
    tables,
    libm_pow,
    shapes32,
    shapes64,
    parse_sep32,
    parse_sep64,
};
