fn libm_pow(_e: u32) -> Option<(u32, u64)> {
    None
}
