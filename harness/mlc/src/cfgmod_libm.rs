fn libm_pow(e: u32) -> Option<(u32, u64)> {
    Some((ml::libm::powf(10.0f32, e as f32).to_bits(), ml::libm::powd(10.0f64, e as f64).to_bits()))
}
