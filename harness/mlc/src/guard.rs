//! catch_unwind wrapper shared by the harness: counts nesting so that the
//! harness's panic hook can tell a panic of the code under test (expected to
//! be caught and classified) from a panic of the harness itself.

use std::cell::Cell;

thread_local! {
    static IN_CATCH: Cell<u32> = const { Cell::new(0) };
}

pub fn depth() -> u32 {
    IN_CATCH.with(|c| c.get())
}

pub fn catch<R, F: FnOnce() -> R + std::panic::UnwindSafe>(f: F) -> Result<R, String> {
    IN_CATCH.with(|c| c.set(c.get() + 1));
    let r = std::panic::catch_unwind(f);
    IN_CATCH.with(|c| c.set(c.get() - 1));
    match r {
        Ok(r) => Ok(r),
        Err(e) => {
            let msg = if let Some(s) = e.downcast_ref::<&str>() {
                s.to_string()
            } else if let Some(s) = e.downcast_ref::<String>() {
                s.clone()
            } else {
                "non-string panic payload".to_string()
            };
            Err(msg)
        }
    }
}
