// Table access for the non-compact configurations.
fn tables() -> crate::cfgs::Tables {
    use ml::table::*;
    let mut t = crate::cfgs::Tables::default();
    t.pow5_128 = POWER_OF_FIVE_128.to_vec();
    t.smallest_pow5 = SMALLEST_POWER_OF_FIVE;
    t.largest_pow5 = LARGEST_POWER_OF_FIVE;
    t.small_int_pow5 = SMALL_INT_POW5.to_vec();
    t.small_int_pow10 = SMALL_INT_POW10.to_vec();
    t.small_f32_pow10 = SMALL_F32_POW10.iter().map(|f| f.to_bits()).collect();
    t.small_f64_pow10 = SMALL_F64_POW10.iter().map(|f| f.to_bits()).collect();
    // as little-endian u64 limbs whatever the crate's limb width is
    t.large_pow5 = {
        let l: Vec<u64> = LARGE_POW5.iter().map(|&x| x as u64).collect();
        if core::mem::size_of_val(&LARGE_POW5[0]) == 8 {
            l
        } else {
            l.chunks(2).map(|c| c[0] | c.get(1).copied().unwrap_or(0) << 32).collect()
        }
    };
    t.large_pow5_step = LARGE_POW5_STEP;
    for q in SMALLEST_POWER_OF_FIVE..=LARGEST_POWER_OF_FIVE {
        let fp = ml::lemire::compute_error_scaled::<f64>(q, 1u64 << 63, 0);
        t.lemire_power.push((q, fp.exp - <f64 as ml::Float>::INVALID_FP));
    }
    t
}
