//! The repository's string front-end copies, compiled from the repository
//! sources (see build.rs) against two feature configurations each.

macro_rules! front {
    ($m:ident, $krate:ident, $file:literal) => {
        pub mod $m {
            #![allow(dead_code, unused_imports, unused_macros, clippy::all)]
            use $krate as minimal_lexical;
            include!(concat!(env!("OUT_DIR"), "/", $file));
        }
    };
}

front!(simple_default, ml_default, "front_simple.rs");
front!(simple_compact, ml_compact, "front_simple.rs");
front!(fuzz_default, ml_default, "front_fuzz.rs");
front!(fuzz_compact, ml_compact, "front_fuzz.rs");
front!(tests_default, ml_default, "front_tests.rs");
front!(tests_nostd_compact_alloc, ml_nostd_compact_alloc, "front_tests.rs");
front!(golang_default, ml_default, "front_golang.rs");
front!(golang_alloc, ml_alloc, "front_golang.rs");

front!(rng_tests_default, ml_default, "front_rng_tests.rs");
front!(parse_random_compact, ml_compact, "front_parse_random.rs");
front!(unittests_alloc, ml_alloc, "front_unittests.rs");

pub struct Front {
    pub name: &'static str,
    pub source: &'static str,
    pub config: &'static str,
    /// accepts nan / inf / infinity and returns (+0.0, whole input) when nothing is consumed
    pub specials: bool,
    pub f32: for<'a> fn(&'a [u8]) -> (f32, &'a [u8]),
    pub f64: for<'a> fn(&'a [u8]) -> (f64, &'a [u8]),
}

pub static FRONTS: [Front; 11] = [
    Front { name: "examples/simple.rs [default]", source: "examples/simple.rs", config: "default", specials: false, f32: simple_default::verif_entry_f32, f64: simple_default::verif_entry_f64 },
    Front { name: "examples/simple.rs [compact]", source: "examples/simple.rs", config: "compact", specials: false, f32: simple_compact::verif_entry_f32, f64: simple_compact::verif_entry_f64 },
    Front { name: "fuzz/fuzz_targets/parse.rs [default]", source: "fuzz/fuzz_targets/parse.rs", config: "default", specials: true, f32: fuzz_default::verif_entry_f32, f64: fuzz_default::verif_entry_f64 },
    Front { name: "fuzz/fuzz_targets/parse.rs [compact]", source: "fuzz/fuzz_targets/parse.rs", config: "compact", specials: true, f32: fuzz_compact::verif_entry_f32, f64: fuzz_compact::verif_entry_f64 },
    Front { name: "tests/integration_tests.rs [default]", source: "tests/integration_tests.rs", config: "default", specials: true, f32: tests_default::verif_entry_f32, f64: tests_default::verif_entry_f64 },
    Front { name: "tests/integration_tests.rs [no_std+compact+alloc]", source: "tests/integration_tests.rs", config: "no_std+compact+alloc", specials: true, f32: tests_nostd_compact_alloc::verif_entry_f32, f64: tests_nostd_compact_alloc::verif_entry_f64 },
    Front { name: "etc/correctness/test-parse-golang/main.rs [default]", source: "etc/correctness/test-parse-golang/main.rs", config: "default", specials: false, f32: golang_default::verif_entry_f32, f64: golang_default::verif_entry_f64 },
    Front { name: "etc/correctness/test-parse-golang/main.rs [alloc]", source: "etc/correctness/test-parse-golang/main.rs", config: "alloc", specials: false, f32: golang_alloc::verif_entry_f32, f64: golang_alloc::verif_entry_f64 },
    Front { name: "etc/correctness/rng-tests/_common.rs [default]", source: "etc/correctness/rng-tests/_common.rs", config: "default", specials: false, f32: rng_tests_default::verif_entry_f32, f64: rng_tests_default::verif_entry_f64 },
    Front { name: "etc/correctness/test-parse-random/_common.rs [compact]", source: "etc/correctness/test-parse-random/_common.rs", config: "compact", specials: false, f32: parse_random_compact::verif_entry_f32, f64: parse_random_compact::verif_entry_f64 },
    Front { name: "etc/correctness/test-parse-unittests/main.rs [alloc]", source: "etc/correctness/test-parse-unittests/main.rs", config: "alloc", specials: false, f32: unittests_alloc::verif_entry_f32, f64: unittests_alloc::verif_entry_f64 },
];
