//! The two float formats and their IEEE-754 layout constants (literal widths,
//! independent of the crate under test).

#[derive(Clone, Copy, Debug, PartialEq, Eq, Hash)]
pub enum Fmt {
    F32,
    F64,
}

impl Fmt {
    /// explicit fraction bits
    pub fn mbits(self) -> u32 {
        match self {
            Fmt::F32 => 23,
            Fmt::F64 => 52,
        }
    }
    pub fn ebits(self) -> u32 {
        match self {
            Fmt::F32 => 8,
            Fmt::F64 => 11,
        }
    }
    pub fn bias(self) -> i64 {
        match self {
            Fmt::F32 => 127,
            Fmt::F64 => 1023,
        }
    }
    /// bit pattern of +infinity
    pub fn inf_bits(self) -> u64 {
        ((1u64 << self.ebits()) - 1) << self.mbits()
    }
    pub fn max_finite_bits(self) -> u64 {
        self.inf_bits() - 1
    }
    pub fn sign_bit(self) -> u64 {
        1u64 << (self.mbits() + self.ebits())
    }
    pub fn name(self) -> &'static str {
        match self {
            Fmt::F32 => "f32",
            Fmt::F64 => "f64",
        }
    }
    /// crate's MAX_DIGITS constants are *not* used here; these are the maximum
    /// numbers of significant digits of an exact expansion (informational).
    pub fn max_sig_digits(self) -> usize {
        match self {
            Fmt::F32 => 112,
            Fmt::F64 => 767,
        }
    }
    /// (M, e): finite non-negative pattern = M * 2^e, integer significand form.
    pub fn decode(self, bits: u64) -> (u64, i64) {
        let mb = self.mbits();
        let frac = bits & ((1u64 << mb) - 1);
        let be = (bits >> mb) & ((1u64 << self.ebits()) - 1);
        if be == 0 {
            (frac, 1 - self.bias() - mb as i64)
        } else {
            (frac | (1u64 << mb), be as i64 - self.bias() - mb as i64)
        }
    }
    pub fn is_nan(self, bits: u64) -> bool {
        let b = bits & !self.sign_bit();
        b > self.inf_bits()
    }
    pub fn is_subnormal(self, bits: u64) -> bool {
        bits != 0 && bits < (1u64 << self.mbits())
    }
    pub fn hex(self, bits: u64) -> String {
        match self {
            Fmt::F32 => format!("0x{:08x}", bits),
            Fmt::F64 => format!("0x{:016x}", bits),
        }
    }
}

