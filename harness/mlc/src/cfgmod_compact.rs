// Table access for the compact configurations.
fn tables() -> crate::cfgs::Tables {
    use ml::table::BASE10_POWERS;
    let mut t = crate::cfgs::Tables::default();
    let p = &BASE10_POWERS;
    for i in 0..p.small.len() {
        let fp = p.get_small(i);
        t.bell_small.push((fp.mant, fp.exp));
    }
    for i in 0..p.large.len() {
        let fp = p.get_large(i);
        t.bell_large.push((fp.mant, fp.exp));
    }
    for i in 0..p.small_int.len() {
        t.bell_small_int.push(p.get_small_int(i));
    }
    t.bell_step = p.step;
    t.bell_bias = p.bias;
    t
}
