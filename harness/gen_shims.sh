#!/bin/bash
# Regenerate the shim packages (one per feature configuration of minimal-lexical).
# Each shim compiles $VERIF_REPO/src/lib.rs under its own package name, so all
# configurations link side by side into one binary (Cargo does not unify features
# across differently named packages).
set -e
REPO="${VERIF_REPO:-/repo}"
HERE="$(cd "$(dirname "$0")" && pwd)"
VERIF_FEATURE='"verif"'
gen() { # name features...
  local name="$1"; shift
  local feats=""
  for f in "$@"; do feats="$feats\"$f\", "; done
  local dir="$HERE/shims/$name"
  mkdir -p "$dir"
  local tmp="$dir/Cargo.toml.tmp"
  cat > "$tmp" <<EOT
[package]
name = "$name"
version = "0.0.0"
edition = "2018"
publish = false

[lib]
path = "$REPO/src/lib.rs"
doctest = false
test = false

[features]
default = [${feats}${VERIF_FEATURE}]
std = []
compact = []
alloc = []
nightly = []
lint = []
verif = []
EOT
  if ! cmp -s "$tmp" "$dir/Cargo.toml"; then mv "$tmp" "$dir/Cargo.toml"; else rm "$tmp"; fi
}
gen ml_default std
gen ml_compact std compact
gen ml_alloc std alloc
gen ml_compact_alloc std compact alloc
gen ml_nostd
gen ml_nostd_alloc alloc
gen ml_nostd_compact compact
gen ml_nostd_compact_alloc compact alloc
# the crate exactly as a user builds it, without the verification hook feature (C05 compares these with the
# hooked builds, so that code behind cfg(not(feature = "verif")) cannot hide from the harness)
VERIF_FEATURE=''
gen ml_default_plain std
gen ml_compact_plain std compact
