#!/bin/bash
# thorough_pass.sh [seed] : run every THOROUGH check once on the UNCHANGED tree (hours), in a
# scratch clone of /verif and /repo (so that /repo may be patched meanwhile).  Any non-zero exit
# or VIOLATION line here is a false alarm (or an undiscovered defect) and must be investigated.
set -u
HERE="$(cd "$(dirname "$0")" && pwd)"
S="$(mktemp -d /tmp/mlv-thor-XXXXXX)"
trap 'rm -rf "$S"' EXIT
mkdir -p "$S/verif" "$S/repo"
rsync -a --exclude build --exclude replays --exclude .git "$HERE/" "$S/verif/"
rsync -a --exclude target /repo/ "$S/repo/"
git -C "$S/repo" checkout -q -- . 2>/dev/null
export VERIF_REPO="$S/repo"
(cd "$S/verif/harness" && ./gen_shims.sh)
"$S/verif/run.sh" setup >/dev/null 2>&1 || echo "setup failed"
for seed in "${@:-0}"; do
  for id in ${IDS:-C01 C02 C03 C04 C05 C06 C07 C08 C09 C10 C11 C12 C13 C14 C15 C16 C17 C18 C19}; do
    out=$(VERIF_SEED=$seed "$S/verif/run.sh" $id thorough 2>&1); rc=$?
    v=$(echo "$out" | grep -c "^VIOLATION")
    echo "seed=$seed $id rc=$rc violations=$v t=$SECONDS $(echo "$out" | grep -E "^(VIOLATION|INCONCLUSIVE|HARNESS)" | head -2 | tr '\n' ' ' | cut -c1-200)"
    if [ $rc -ne 0 ]; then mkdir -p "$HERE/build/thorough-failures"; echo "$out" > "$HERE/build/thorough-failures/$id-seed$seed.log"; cp -r "$S/verif/replays" "$HERE/build/thorough-failures/replays-$id-seed$seed" 2>/dev/null; fi
  done
done
